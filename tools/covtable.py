#!/usr/bin/env python3
"""Prints the DESIGN.md section 7.5 table from evidence/*.json (run after tools/runall.sh quick)."""
import json, glob, os
V = os.path.dirname(os.path.dirname(os.path.abspath(__file__)))
def n(x):
    return f"{x/1e6:.1f} M" if x >= 1e6 else (f"{x/1e3:.0f} k" if x >= 1e4 else str(x))
print("| id | tier | wall | what was covered (from the evidence file) |\n|---|---|---|---|")
for f in sorted(glob.glob(os.path.join(V, "evidence", "C*.json"))):
    d = json.load(open(f)); c = d["coverage"]; parts = []
    if "scenarios" in c:
        parts.append(f"{n(c['scenarios'])} scenarios, {n(c['executions'])} executions (schedules), {n(c['transitions'])} steps, {c.get('outcome_classes_total','?')} outcome classes, capped={c.get('scenarios_capped',0)}")
    if "fixpoint" in c or "sequential_fixpoint" in c:
        st = c.get("sequential_states", c.get("states")); tr = c.get("sequential_transitions", c.get("transitions"))
        parts.append(f"BFS to fixpoint={c.get('fixpoint', c.get('sequential_fixpoint'))}: {n(st)} states, {n(tr)} transitions")
    if "evaluations" in c:
        parts.append(f"{n(c['evaluations'])} inputs evaluated, {n(c['distinct_nontrivial'])} distinct non-trivial")
    for k in ("geometry_cases", "nodedup_sequences", "large_capacity_sweep_cases", "archives", "roundtrip_cases", "configurations"):
        if k in c:
            parts.append(f"{k}={n(c[k])}")
    print(f"| {d['property_id']} | {d.get('tier')} | {d.get('wall_s',0):.0f} s | {'; '.join(parts)}; exhaustive within bounds={c.get('exhaustive')} |")
