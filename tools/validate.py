#!/usr/bin/env python3
# validates MANIFEST.json and every evidence file against the schemas (uses the tooling venv)
import json,sys,glob,jsonschema
ok=True
def v(f,s):
    global ok
    try:
        jsonschema.validate(json.load(open(f)),json.load(open(s))); print("ok  ",f)
    except Exception as e:
        ok=False; print("FAIL",f,str(e)[:300])
v('/verif/MANIFEST.json','/root/.vp/MANIFEST.schema.json')
for f in sorted(glob.glob('/verif/evidence/*.json')): v(f,'/root/.vp/EVIDENCE.schema.json')
sys.exit(0 if ok else 1)
