module vrewrite

go 1.20
