// vrewrite produces the build overlay that binds the harness to the working
// tree of the repository under verification.
//
//	vrewrite -repo /repo -verif /verif -out DIR [-rewrite f1.go,f2.go] [-hooks pkg1,pkg2] [-steps f1.go,...]
//
// It writes DIR/overlay.json mapping
//   - every -rewrite file to a mechanically rewritten copy (sync/atomic/time
//     imports -> shims, go/send/recv/select -> vsched calls),
//   - the shim packages into the virtual directory <repo>/zverif/,
//   - hooks/<pkg>/zz_verif_*.go into <repo>/<pkg>/.
//
// Unsupported constructs abort with exit status 2 (infrastructure), never a verdict.
package main

import (
	"bytes"
	"encoding/json"
	"flag"
	"fmt"
	"go/ast"
	"go/format"
	"go/parser"
	"go/token"
	"os"
	"path/filepath"
	"reflect"
	"strconv"
	"strings"
)

const modPath = "github.com/acquirecloud/golibs"

func die(format string, a ...any) {
	fmt.Fprintf(os.Stderr, "vrewrite: "+format+"\n", a...)
	os.Exit(2)
}

func main() {
	repo := flag.String("repo", "/repo", "repository root")
	verif := flag.String("verif", "/verif", "verification root")
	out := flag.String("out", "", "output directory")
	rw := flag.String("rewrite", "", "comma separated repo-relative files to rewrite")
	hooks := flag.String("hooks", "", "comma separated repo-relative package dirs that get hook files")
	steps := flag.String("steps", "", "comma separated files (subset of -rewrite) that get statement steps")
	flag.Parse()
	if *out == "" {
		die("-out required")
	}
	os.MkdirAll(filepath.Join(*out, "rw"), 0o755)
	repl := map[string]string{}
	stepSet := map[string]bool{}
	for _, f := range split(*steps) {
		stepSet[f] = true
	}
	for _, f := range split(*rw) {
		src := filepath.Join(*repo, f)
		dst := filepath.Join(*out, "rw", strings.ReplaceAll(f, "/", "__"))
		code, err := rewriteFile(src, stepSet[f])
		if err != nil {
			die("%s: %v", f, err)
		}
		if err := os.WriteFile(dst, code, 0o644); err != nil {
			die("%v", err)
		}
		repl[src] = dst
	}
	// shim packages
	shimRoot := filepath.Join(*verif, "shim")
	ents, err := os.ReadDir(shimRoot)
	if err != nil {
		die("%v", err)
	}
	for _, e := range ents {
		if !e.IsDir() {
			continue
		}
		fs, _ := filepath.Glob(filepath.Join(shimRoot, e.Name(), "*.go"))
		for _, f := range fs {
			repl[filepath.Join(*repo, "zverif", e.Name(), filepath.Base(f))] = f
		}
	}
	for _, p := range split(*hooks) {
		fs, _ := filepath.Glob(filepath.Join(*verif, "hooks", p, "zz_verif_*.go"))
		if len(fs) == 0 {
			die("no hook files for %s", p)
		}
		for _, f := range fs {
			repl[filepath.Join(*repo, p, filepath.Base(f))] = f
		}
	}
	b, _ := json.MarshalIndent(map[string]any{"Replace": repl}, "", " ")
	if err := os.WriteFile(filepath.Join(*out, "overlay.json"), b, 0o644); err != nil {
		die("%v", err)
	}
}

func split(s string) []string {
	var r []string
	for _, x := range strings.Split(s, ",") {
		x = strings.TrimSpace(x)
		if x != "" {
			r = append(r, x)
		}
	}
	return r
}

type rewriter struct {
	fset      *token.FileSet
	tmp       int
	usedSched bool
	steps     bool
	err       error
}

func (r *rewriter) fail(n ast.Node, msg string) {
	if r.err == nil {
		r.err = fmt.Errorf("%s: unsupported construct: %s", r.fset.Position(n.Pos()), msg)
	}
}

func rewriteFile(path string, steps bool) ([]byte, error) {
	fset := token.NewFileSet()
	f, err := parser.ParseFile(fset, path, nil, parser.ParseComments)
	if err != nil {
		return nil, err
	}
	// keep //go: directives that precede the package clause or declarations
	var directives []string
	for _, cg := range f.Comments {
		for _, c := range cg.List {
			if strings.HasPrefix(c.Text, "//go:build") || strings.HasPrefix(c.Text, "// +build") {
				directives = append(directives, c.Text)
			}
		}
	}
	f.Comments = nil
	f.Doc = nil
	stripDocs(f)
	r := &rewriter{fset: fset, steps: steps}
	shims := map[string][2]string{
		"sync":        {"sync", modPath + "/zverif/vsync"},
		"sync/atomic": {"atomic", modPath + "/zverif/vatomic"},
		"time":        {"time", modPath + "/zverif/vtime"},
		"context":     {"context", modPath + "/zverif/vctx"},
	}
	for _, im := range f.Imports {
		p, _ := strconv.Unquote(im.Path.Value)
		if sh, ok := shims[p]; ok {
			name := sh[0]
			if im.Name != nil {
				name = im.Name.Name
			}
			im.Name = ast.NewIdent(name)
			im.Path.Value = strconv.Quote(sh[1])
		}
	}
	for _, d := range f.Decls {
		if fd, ok := d.(*ast.FuncDecl); ok && fd.Body != nil {
			r.block(fd.Body)
		} else if gd, ok := d.(*ast.GenDecl); ok {
			// function literals in package-level var initialisers
			r.exprsIn(gd)
		}
	}
	if r.err != nil {
		return nil, r.err
	}
	if r.usedSched {
		addImport(f, "vsched", modPath+"/zverif/vsched")
	}
	var buf bytes.Buffer
	for _, d := range directives {
		buf.WriteString(d + "\n")
	}
	if len(directives) > 0 {
		buf.WriteString("\n")
	}
	// positions of synthesized nodes are zero; print from a clean fileset via format.Node
	if err := format.Node(&buf, fset, f); err != nil {
		return nil, err
	}
	// reformat to make sure the result parses
	res, err := format.Source(buf.Bytes())
	if err != nil {
		return nil, fmt.Errorf("rewritten source does not parse: %v\n%s", err, buf.String())
	}
	return res, nil
}

func stripDocs(f *ast.File) {
	ast.Inspect(f, func(n ast.Node) bool {
		switch x := n.(type) {
		case *ast.FuncDecl:
			x.Doc = nil
		case *ast.GenDecl:
			x.Doc = nil
		case *ast.TypeSpec:
			x.Doc, x.Comment = nil, nil
		case *ast.ValueSpec:
			x.Doc, x.Comment = nil, nil
		case *ast.Field:
			x.Doc, x.Comment = nil, nil
		case *ast.ImportSpec:
			x.Doc, x.Comment = nil, nil
		}
		return true
	})
}

func addImport(f *ast.File, name, path string) {
	spec := &ast.ImportSpec{Name: ast.NewIdent(name), Path: &ast.BasicLit{Kind: token.STRING, Value: strconv.Quote(path)}}
	for _, d := range f.Decls {
		if gd, ok := d.(*ast.GenDecl); ok && gd.Tok == token.IMPORT {
			gd.Specs = append(gd.Specs, spec)
			if !gd.Lparen.IsValid() {
				gd.Lparen = gd.Pos()
				gd.Rparen = gd.End()
			}
			f.Imports = append(f.Imports, spec)
			return
		}
	}
	gd := &ast.GenDecl{Tok: token.IMPORT, Specs: []ast.Spec{spec}}
	f.Decls = append([]ast.Decl{gd}, f.Decls...)
	f.Imports = append(f.Imports, spec)
}

func sel(pkg, name string) ast.Expr {
	return &ast.SelectorExpr{X: ast.NewIdent(pkg), Sel: ast.NewIdent(name)}
}

func call(fn ast.Expr, args ...ast.Expr) *ast.CallExpr {
	return &ast.CallExpr{Fun: fn, Args: args}
}

func (r *rewriter) sched(name string, args ...ast.Expr) *ast.CallExpr {
	r.usedSched = true
	return call(sel("vsched", name), args...)
}

func (r *rewriter) fresh(prefix string) *ast.Ident {
	r.tmp++
	return ast.NewIdent(fmt.Sprintf("_vr%s%d", prefix, r.tmp))
}

// block rewrites a statement list in place.
func (r *rewriter) block(b *ast.BlockStmt) {
	if b == nil {
		return
	}
	b.List = r.stmts(b.List)
}

func (r *rewriter) stmts(list []ast.Stmt) []ast.Stmt {
	var out []ast.Stmt
	for _, st := range list {
		ns := r.stmt(st)
		if r.steps {
			switch st.(type) {
			case *ast.DeclStmt, *ast.LabeledStmt, *ast.EmptyStmt:
			default:
				out = append(out, &ast.ExprStmt{X: r.sched("Step")})
			}
		}
		out = append(out, ns)
	}
	return out
}

func (r *rewriter) stmt(st ast.Stmt) ast.Stmt {
	switch x := st.(type) {
	case *ast.GoStmt:
		return r.goStmt(x)
	case *ast.SendStmt:
		r.exprsIn(x)
		return &ast.ExprStmt{X: r.sched("Send", x.Chan, x.Value)}
	case *ast.SelectStmt:
		return r.selectStmt(x)
	case *ast.AssignStmt:
		if len(x.Lhs) == 2 && len(x.Rhs) == 1 {
			if u, ok := x.Rhs[0].(*ast.UnaryExpr); ok && u.Op == token.ARROW {
				r.exprsIn(u.X)
				x.Rhs[0] = r.sched("Recv2", u.X)
				for i := range x.Lhs {
					x.Lhs[i] = r.expr(x.Lhs[i])
				}
				return x
			}
		}
		r.exprsIn(x)
		return x
	case *ast.BlockStmt:
		r.block(x)
		return x
	case *ast.IfStmt:
		if x.Init != nil {
			x.Init = r.stmtNoStep(x.Init)
		}
		x.Cond = r.expr(x.Cond)
		r.block(x.Body)
		if x.Else != nil {
			x.Else = r.stmtNoStep(x.Else)
		}
		return x
	case *ast.ForStmt:
		if x.Init != nil {
			x.Init = r.stmtNoStep(x.Init)
		}
		if x.Cond != nil {
			x.Cond = r.expr(x.Cond)
		}
		if x.Post != nil {
			x.Post = r.stmtNoStep(x.Post)
		}
		r.block(x.Body)
		return x
	case *ast.RangeStmt:
		x.X = r.expr(x.X)
		if x.Key == nil && x.Value == nil {
			// `for range x` - fine unless x is a channel, which we cannot tell
			// syntactically; channels are never ranged over with no vars here
		}
		r.block(x.Body)
		return x
	case *ast.SwitchStmt:
		if x.Init != nil {
			x.Init = r.stmtNoStep(x.Init)
		}
		if x.Tag != nil {
			x.Tag = r.expr(x.Tag)
		}
		for _, c := range x.Body.List {
			cc := c.(*ast.CaseClause)
			for i := range cc.List {
				cc.List[i] = r.expr(cc.List[i])
			}
			cc.Body = r.stmts(cc.Body)
		}
		return x
	case *ast.TypeSwitchStmt:
		if x.Init != nil {
			x.Init = r.stmtNoStep(x.Init)
		}
		x.Assign = r.stmtNoStep(x.Assign)
		for _, c := range x.Body.List {
			cc := c.(*ast.CaseClause)
			cc.Body = r.stmts(cc.Body)
		}
		return x
	case *ast.LabeledStmt:
		x.Stmt = r.stmtNoStep(x.Stmt)
		return x
	case *ast.DeferStmt:
		r.exprsIn(x.Call)
		return x
	default:
		r.exprsIn(st)
		return st
	}
}

func (r *rewriter) stmtNoStep(st ast.Stmt) ast.Stmt {
	return r.stmt(st)
}

// goStmt: `go f(a, b)` -> { _f := f; _a := a; _b := b; vsched.Go(func(){ _f(_a,_b) }) }
func (r *rewriter) goStmt(g *ast.GoStmt) ast.Stmt {
	c := g.Call
	var pre []ast.Stmt
	fun := c.Fun
	if fl, ok := fun.(*ast.FuncLit); ok {
		r.block(fl.Body)
	} else {
		fun = r.expr(fun)
		id := r.fresh("f")
		pre = append(pre, &ast.AssignStmt{Lhs: []ast.Expr{id}, Tok: token.DEFINE, Rhs: []ast.Expr{fun}})
		fun = id
	}
	var args []ast.Expr
	for _, a := range c.Args {
		a = r.expr(a)
		id := r.fresh("a")
		pre = append(pre, &ast.AssignStmt{Lhs: []ast.Expr{id}, Tok: token.DEFINE, Rhs: []ast.Expr{a}})
		args = append(args, id)
	}
	inner := &ast.CallExpr{Fun: fun, Args: args, Ellipsis: c.Ellipsis}
	if c.Ellipsis.IsValid() {
		inner.Ellipsis = 1
	}
	lit := &ast.FuncLit{Type: &ast.FuncType{Params: &ast.FieldList{}}, Body: &ast.BlockStmt{List: []ast.Stmt{&ast.ExprStmt{X: inner}}}}
	pre = append(pre, &ast.ExprStmt{X: r.sched("Go", lit)})
	return &ast.BlockStmt{List: pre}
}

// selectStmt -> switch vsched.Select(hasDefault, cases...) { case i: ... }
func (r *rewriter) selectStmt(s *ast.SelectStmt) ast.Stmt {
	hasDefault := false
	var pre []ast.Stmt
	var caseExprs []ast.Expr
	var clauses []ast.Stmt
	idx := 0
	for _, c := range s.Body.List {
		cc := c.(*ast.CommClause)
		body := r.stmts(cc.Body)
		if cc.Comm == nil {
			hasDefault = true
			clauses = append(clauses, &ast.CaseClause{List: nil, Body: body})
			continue
		}
		cv := r.fresh("c")
		var mk ast.Expr
		switch cm := cc.Comm.(type) {
		case *ast.SendStmt:
			mk = r.sched("CaseSend", r.expr(cm.Chan), r.expr(cm.Value))
		case *ast.ExprStmt:
			u, ok := cm.X.(*ast.UnaryExpr)
			if !ok || u.Op != token.ARROW {
				r.fail(cm, "select clause")
				return s
			}
			mk = r.sched("CaseRecv", r.expr(u.X))
		case *ast.AssignStmt:
			u, ok := cm.Rhs[0].(*ast.UnaryExpr)
			if !ok || u.Op != token.ARROW || len(cm.Rhs) != 1 {
				r.fail(cm, "select clause")
				return s
			}
			mk = r.sched("CaseRecv", r.expr(u.X))
			// bindings: v := cv.Val.(T) is not expressible without types; only `_` or ok bindings supported
			var binds []ast.Stmt
			for i, l := range cm.Lhs {
				id, isId := l.(*ast.Ident)
				if isId && id.Name == "_" {
					continue
				}
				if i == 1 {
					binds = append(binds, &ast.AssignStmt{Lhs: []ast.Expr{l}, Tok: cm.Tok, Rhs: []ast.Expr{&ast.SelectorExpr{X: cv, Sel: ast.NewIdent("Ok")}}})
					if cm.Tok == token.DEFINE {
						binds = append(binds, &ast.AssignStmt{Lhs: []ast.Expr{ast.NewIdent("_")}, Tok: token.ASSIGN, Rhs: []ast.Expr{l}})
					}
					continue
				}
				r.fail(cm, "select receive clause binding a value (only `_` / ok supported)")
				return s
			}
			body = append(binds, body...)
		default:
			r.fail(cc, "select clause kind")
			return s
		}
		pre = append(pre, &ast.AssignStmt{Lhs: []ast.Expr{cv}, Tok: token.DEFINE, Rhs: []ast.Expr{mk}})
		caseExprs = append(caseExprs, cv)
		clauses = append(clauses, &ast.CaseClause{List: []ast.Expr{&ast.BasicLit{Kind: token.INT, Value: strconv.Itoa(idx)}}, Body: body})
		idx++
	}
	if !hasDefault {
		clauses = append(clauses, &ast.CaseClause{List: nil, Body: []ast.Stmt{
			&ast.ExprStmt{X: call(ast.NewIdent("panic"), &ast.BasicLit{Kind: token.STRING, Value: `"vrewrite: unreachable select outcome"`})},
		}})
	}
	args := []ast.Expr{ast.NewIdent(strconv.FormatBool(hasDefault))}
	args = append(args, caseExprs...)
	sw := &ast.SwitchStmt{Tag: r.sched("Select", args...), Body: &ast.BlockStmt{List: clauses}}
	if len(pre) == 0 {
		return sw
	}
	// keep it one statement; the labelled-break semantics are preserved because
	// an unlabelled break inside the switch leaves the switch exactly as it left the select.
	return &ast.BlockStmt{List: append(pre, sw)}
}

// expr rewrites an expression and returns the replacement.
func (r *rewriter) expr(e ast.Expr) ast.Expr {
	if e == nil {
		return nil
	}
	switch x := e.(type) {
	case *ast.UnaryExpr:
		if x.Op == token.ARROW {
			return r.sched("Recv", r.expr(x.X))
		}
	case *ast.FuncLit:
		r.block(x.Body)
		return x
	}
	r.exprsIn(e)
	return e
}

var exprType = reflect.TypeOf((*ast.Expr)(nil)).Elem()

// exprsIn walks the children of n, replacing expression fields through r.expr
// and rewriting nested statement lists of function literals.
func (r *rewriter) exprsIn(n ast.Node) {
	if n == nil || reflect.ValueOf(n).IsNil() {
		return
	}
	v := reflect.ValueOf(n).Elem()
	if v.Kind() != reflect.Struct {
		return
	}
	for i := 0; i < v.NumField(); i++ {
		f := v.Field(i)
		switch f.Kind() {
		case reflect.Interface:
			if f.IsNil() {
				continue
			}
			if f.Type() == exprType {
				f.Set(reflect.ValueOf(r.expr(f.Interface().(ast.Expr))))
			} else if st, ok := f.Interface().(ast.Stmt); ok {
				f.Set(reflect.ValueOf(r.stmt(st)))
			} else if nd, ok := f.Interface().(ast.Node); ok {
				r.exprsIn(nd)
			}
		case reflect.Ptr:
			if f.IsNil() {
				continue
			}
			switch p := f.Interface().(type) {
			case *ast.BlockStmt:
				r.block(p)
			case *ast.Object, *ast.Scope, *ast.CommentGroup, *ast.Ident, *ast.BasicLit:
			case ast.Node:
				r.exprsIn(p)
			}
		case reflect.Slice:
			if f.Type().Elem() == exprType {
				for j := 0; j < f.Len(); j++ {
					el := f.Index(j)
					if !el.IsNil() {
						el.Set(reflect.ValueOf(r.expr(el.Interface().(ast.Expr))))
					}
				}
			} else {
				for j := 0; j < f.Len(); j++ {
					el := f.Index(j)
					if el.Kind() == reflect.Interface || el.Kind() == reflect.Ptr {
						if el.IsNil() {
							continue
						}
						if st, ok := el.Interface().(ast.Stmt); ok {
							el.Set(reflect.ValueOf(r.stmt(st)))
						} else if nd, ok := el.Interface().(ast.Node); ok {
							r.exprsIn(nd)
						}
					}
				}
			}
		}
	}
}
