#!/bin/bash
# tools/runall.sh [tier]  - runs every check on /repo's working tree, prints timing and validates the evidence files
cd "$(dirname "$0")/.."
TIER="${1:-quick}"
for i in $(seq -w 1 20); do
  s=$(date +%s); r=$(./check C$i --tier "$TIER" 2>&1 | grep -E "tier=|INFRA" | tail -1); e=$(date +%s)
  echo "$((e-s))s $r"
done
python3-vt tools/validate.py | grep -v "^ok" || true
