#!/usr/bin/env python3
"""Generates /verif/MANIFEST.json. Edit the tables below and re-run."""
import json, os

V = os.path.dirname(os.path.dirname(os.path.abspath(__file__)))
props = [json.loads(l)["id"] for l in open(os.path.join(V, "properties.jsonl"))]

S = "stateless model checking: preemption/fault/clock-deviation-bounded exhaustive enumeration of schedules of the real (mechanically rewritten) implementation under a controlled scheduler"
Q = "explicit-state model checking: breadth-first search over operation sequences with the real object as transition function (replay on a fresh instance), canonical-state deduplication to a fixpoint, Go reference model as oracle"
E = "bounded-exhaustive enumeration of a finite input lattice on the real functions, independent reference as oracle"

checks = {
 "C01": dict(engine="S", cat="model_checking", tech=S,
   text="every schedule within a preemption bound and every fault placement within a fault budget of 2-3 thread lock programs (Lock/TryLock/LockWithCtx+cancel/two tenures/hold across a renewal) on the real kvlock+inmem+timeout code; holders-counter oracle with a scheduling point inside the critical section",
   note="bounded: 2-3 threads, P<=2 (quick) / P<=3 (thorough), F<=1/2; the maximal-progress virtual clock encodes the premise that live holders renew in time; in-memory storage, plus a family over the Redis backend (miniredis, command-level scheduling points, no cancellable contexts because go-redis runs those commands on its own goroutine); the cooperative scheduler cannot see data races: a separate free-running -race audit of distlock (time-boxed, supplementary) audits that assumption"),
 "C03": dict(engine="Q", cat="model_checking", tech=Q,
   text="all sequences of Storage operations over 3 keys / small value, expiry, version-kind and pattern alphabets to a fixpoint of the canonical model state; in-memory and Redis (miniredis) backends driven in lock-step and compared with a reference model after every operation",
   note="trusted: miniredis behaves like Redis for SETNX/WATCH/MULTI/EXEC/MSET/PX/SCAN; version strings abstracted to tokens (only compared for equality by both backends); one known finding (leading '/' stripped by the Redis backend, several signatures) is reported as KNOWN-FINDING and does not cut the exploration (the aliased key is no longer observed on that backend for the rest of the history); patterns include the gobwas/glob forms {a,b} and [!a] that Redis MATCH does not share; a second small search covers the empty key; every listing is made with a second live iterator; one long history over 21 near-identical keys; a GetMany of 70 keys; deterministic PutMany/GetMany/ListKeys histories over 1..2049 keys (sizes around 64/128/256/1024/2048, reversed list, missing and repeated keys); the state key contains the complete in-memory implementation state (deepdump)"),
 "C06": dict(engine="Q+S", cat="model_checking", tech=Q + "; every transition runs inside one execution of the controlled scheduler so that time is virtual",
   text="all histories over 2 keys of writes with expiry none/short/long/sub-millisecond/9999-12-31/1000-01-01, clock steps, and every operation kind (incl. WaitForVersionChange) as first and later touch of an expired key, per backend, to a fixpoint; model deletes a record at its expiration instant; plus Engine-S families: 2-3 concurrent waiters on one expiring record with cancellers, a writer renewing the record at the instant it expires under 1-2 sleeping waiters, a waiter arriving within nanoseconds of the expiration instant, readers racing a writer on an expired untouched record (every order within P<=2)",
   note="virtual clock drives time.Now of the rewritten backends and miniredis' TTL clock; at most 3 clock steps per history; remaining lifetimes are bucketed (short/long) in the state key, sound because a clock step either expires every short record or no long one"),
 "C08": dict(engine="Q", cat="model_checking", tech=Q,
   text="all call sequences of GetOrCreate (scripted create outcome)/Remove/Clear for Cache, ECache (non-injective key mapping) and ExpirableCache, capacities 1..4(5), to a fixpoint; oracle: reference LRU list plus exact ledger of create/delete callbacks per call",
   note="values are opaque serial numbers (data independence); sequential use only (concurrency is C09)"),
 "C10": dict(engine="Q", cat="model_checking", tech=Q,
   text="all histories of Add/Remove/Get/Len/First and up to 3 open iterators over 2-4 keys to a fixpoint of the complete implementation state; oracle: append-only log with cursors, structural and refCnt invariants through an accessor",
   note="map.go is rewritten so that its sync.Pool is the deterministic shim pool; the state key contains the complete reachable state of the map object and its open iterators (reflective deep dump: every field, pointers numbered in visiting order), so hidden state added by a change cannot be merged away; quick: 3x1x2, 2x2x2, 2x1x3 (keys x values x iterators), thorough: 3x2x2, 2x2x3, 4x1x2"),
 "C11": dict(engine="Q", cat="model_checking", tech=Q,
   text="same state graphs as C10 and C08 explored to a fixpoint; oracle: with every iterator closed / after every LRU call, nodes reachable from the list head == live entries + 1, no removed-but-linked node, every refCnt 0; a leak prevents the fixpoint",
   note="pool-parked nodes are not counted (the property speaks of what is reachable from the list); includes a small Engine-S section (2-3 threads with overlapping creations, P<=2) for the capacity bound"),
 "C14": dict(engine="Q", cat="model_checking", tech=Q,
   text="all call sequences over the full method set for capacities 0..4(6) to a fixpoint of (r, w, occupancy); slice model incl. exact ErrExhausted/io.EOF/panic conditions; zeroing of consumed slots through an accessor; no-dedup enumeration to depth 4(5) as cross-check of the abstraction; deterministic sweep of capacity 1000",
   note="elements are opaque to the buffer (data independence)"),
 "C15": dict(engine="E", cat="exploration", tech=E,
   text="exhaustive over the stated value/length/destination-size lattice (all 8/16-bit values, two-arbitrary-byte patterns for 32/64 bit, all varints < 2^21 and two-arbitrary-group patterns, all lengths 0..300 and around 2^14/2^21, every destination length 0..size+1, all concatenations of <=3 items of a 12-item pool)",
   note="not all 2^64 values: the lattice covers every 7-bit-group boundary and bit length; 64-bit platform (uint = 64 bit)"),
 "C16": dict(engine="E/Q", cat="model_checking", tech="exhaustive enumeration of the input prefix tree (all byte strings up to a length over full / reduced alphabets) plus a structured adversarial family, every decoder run on every node",
   text="every byte string of length <=3 over the full alphabet and <=8(10) over {00,01,7F,80,FF}, the family of long varint prefixes reaching 2^31/2^63/2^64-1, mutated valid encodings; oracle: no panic, n in range, result aliases the input (pointer range) or is a copy, n=0 on error",
   note="inputs longer than the bounds only through the structured families"),
 "C17": dict(engine="E+Q+S", cat="model_checking", tech=Q + " + " + S + " + exhaustive geometry enumeration",
   text="geometry: every block size in [-2, 2*pagesize+1] x buffer sizes x fit flag; disjointness of all block/header ranges for small geometries; BFS over all alloc/free/Block histories on 8-16 blocks to a fixpoint with a copy+reopen+probe after every transition; depth-bounded BFS (4-6 operations) from two non-initial states (all blocks / first segment allocated) on block sizes 2,4 x 2-3 segments, whose full state space is out of reach; short sequences over a real MMFile reopened by path; 2-3 threads under the controlled scheduler with a crash point (copy+reopen) after every operation of every schedule and linearizability of the call/return history against a sequential allocator (porcupine); every reopen is also drained to exhaustion",
   note="msync/power-loss durability of the mapped file is not modelled (the property speaks of reopening the same bytes); concurrent part bounded by P<=3 (2 threads) / P<=2 (3 threads)"),
 "C18": dict(engine="Q", cat="model_checking", tech=Q,
   text="for every pair of sequences of length <=3(4) over 3 values, 5 selectors and 4 source kinds: all call patterns of HasNext/Next/Reset to a fixpoint of (selector state, look-ahead flags, positions); oracle: two-pointer reference merge",
   note="after a failed Reset (non-resettable input) nothing more is specified and the search stops there"),
 "C19": dict(engine="E", cat="exploration", tech=E,
   text="the full finite product classes x classes x wrap depth 0..4 x wrapping form (single %w, two %w, errors.Join) x innermost error (class or a real OS error of the class) x embedded object kind and position x 11 message texts, plus all gRPC codes x texts",
   note="single-class chains only (an error wrapping two classes is outside the property); grpc-go's status package is trusted"),
 "C20": dict(engine="E", cat="exploration", tech=E + " on a real scratch directory",
   text="round trip for subsets of a 10-path universe x 5 filters x recursive flag (thorough: all 1024 subsets); confinement for every archive of <=2(3) entries from 13 adversarial names with a before/after snapshot three directory levels above the destination",
   note="no symlink entries; real file system under a mktemp directory that is removed afterwards"),
 "C02": dict(engine="S", cat="model_checking", tech=S + "; linearizability of every recorded history decided by porcupine",
   text="every program assignment of 2-3 threads x 1-2 Storage operations (Create/Get/Put/CasByVersion/Delete/PutMany/GetMany) from the empty and a pre-loaded store; in-memory: every schedule within P<=3 with points at the mutex and at every statement executed without the mutex; Redis: every interleaving of the clients' Redis commands against miniredis; plus a family with scheduling points inside the in-memory critical sections and a Create whose context may be cancelled at any moment, and a Redis family where the reply to one write command (SET, SETNX, EXEC) is lost after the server executed it (F<=1); oracle: documented outcomes only, write<->version bijection (freshness), per-key linearizability (a write of unknown outcome is judged both ways), final read-all",
   note="Redis atomicity is explored at command granularity (the granularity at which SETNX/WATCH protect); miniredis is trusted to execute single commands atomically like Redis; go-redis internals run uninstrumented inside one scheduling step; version freshness under true parallelism (id generator) and data races are covered by the supplementary free-running -race audit (inmem, ulid), which is time-boxed, not exhaustive"),
 "C04": dict(engine="S", cat="model_checking", tech=S,
   text="every schedule within P<=2 (thorough 3) of 2-3 worker programs over Lock/TryLock/LockWithCtx+canceller/cancelled ctx/TryLock with a cancelled ctx/two attempts/hold across a renewal, plus a Shutdown pseudo thread, on the in-memory storage as it is and on a variant that refuses calls whose context has ended, with a scheduling point while the reply of Create/Delete is in transit; plus a family with one injected storage fault (request or reply lost, on any Storage method the locker calls) whose oracle is that no worker stays blocked and every Locker is usable again once all leases have lapsed; oracles: no deadlock with a blocked worker (lost wake-up), cancelled attempts return ctx.Err(), at the end the lock record is gone, the in-memory waiter table is empty and every Locker can be re-acquired, nothing acquires after Shutdown returned",
   note="liveness is judged as 'not blocked at quiescence' (no fairness assumption is needed: the SUT has no spin loops on the in-memory storage); weaker reading of 'after Shutdown': attempts invoked after Shutdown() returned"),
 "C05": dict(engine="S", cat="model_checking", tech=S + " with a virtual clock (maximal progress)",
   text="scenario families on the virtual clock for leases 30ms/10s/100s (in-memory) and 300ms/700ms (kvs/redis over miniredis): handover to a long-waiting contender; up to 4 spaced lost renewal requests in one tenure of 4.5 leases; a storage that needs a sixth of a lease per renewal (request or reply side) with context deadlines on the virtual clock; the acquisition context ending during the tenure on a context-honouring storage; lease kept over 3.5 leases with a contender and a prober (every renewal call may be lost, request or reply, F<=1); holder death at 6 scripted phases and at any scheduling point, contender must hold the lock within lease + one renewal period; Unlock exactly at the renewal instant followed by a second tenure, at most one stale renewal reaches the storage, none succeeds, timers and timer goroutines wind down",
   note="in-memory storage (after the expiry repairs) and the Redis backend; one known finding: a renewal whose reply is lost ends the renewal chain (needs an owner token; recorded in known_findings.txt); P<=2 on long executions"),
 "C07": dict(engine="S", cat="model_checking", tech=S + "; justification of every return value decided by porcupine (Wait and Cancel as model operations)",
   text="1-3 waiters (current/stale/never-issued version, late waiters that read the version first; keys a, b and the slash-prefixed /s) x per-waiter canceller pseudo threads x every mutator sequence of <=3 operations (incl. writes that store the value already there), every schedule within P<=2 (thorough 3); oracles: return values justified at some instant of the call, no blocked waiter with a reason to return at quiescence, released waiters return the context error, waiter table empty at the end; Redis polling waiter on the virtual clock",
   note="promptness is judged at quiescence (cooperative scheduler: 'eventually when scheduled'); Redis part is small (polling loop) and runs with P<=1"),
 "C09": dict(engine="S", cat="model_checking", tech=S + "; linearizability against a sequential LRU decided by porcupine",
   text="2-3 threads x 1-2 operations over GetOrCreate(a|b)/Remove/Clear, capacities 1..3, create callback with a scheduling point and a free choice succeed/fail, every schedule within the preemption bound with points at the cache mutex, the in-flight wait and inside callbacks; oracles: single-flight counter, linearizability incl. created flag and per-call delete callbacks, create/delete ledger after a final Clear, capacity, in-flight table and list empty at the end",
   note="delete callbacks contain no scheduling point (they run under the cache mutex); data races are outside a cooperative scheduler and are audited by the supplementary free-running -race run (lru)"),
 "C12": dict(engine="S", cat="model_checking", tech=S + " with an adversarial virtual clock (clock deviations bounded by K)",
   text="scripts of 1-3(4) futures with delays -1ms/0/1ms/5ms (equal deadlines included), the maximal duration (never), bursts of 4-5 futures due at the same instant and 7 queued futures (3 near in every order interleaved in every way with 4 far) with one cancelled and a lateness bound, cancel plans none/now/at the fire instant/after firing/twice, 1-2 callers, pool limit 1-10, busy callbacks, short idle timeout; every schedule within P and K with points at the package mutex, wake channel, timers, worker spawn and every statement outside the mutex; oracle on the virtual clock: never early, at most once, no start after an early Cancel, uncancelled futures start exactly once, heap indices consistent",
   note="time is virtual: 'early' is judged against the virtual clock read before Call; the +1ns-per-read clock is an artefact that keeps strict After() comparisons progressing"),
 "C13": dict(engine="S", cat="model_checking", tech=S + " with a maximal-progress virtual clock",
   text="every arrival pattern of <=3(4) events over far/near/burst/cancel-head/idle gap/arrival exactly at a worker's exit, 1-2 callers, pool limit 1-3, idle timeout 5ms/30s, every schedule within P<=2 incl. statement-level points; oracle: every live future starts exactly once within 1us of its fire time, package winds down to zero workers and goroutines with nothing pending, restarts on the next Call",
   note="lateness bound assumes callbacks return at once and CPU is available (maximal-progress clock), as the property states"),
}

wip = {}

engines = [
 {"name": "S", "path": "shim/vsched", "kind_free_text": "stateless model checker for the real code: go/ast rewriter (tools/vrewrite) + shim packages (vsync, vatomic, vtime) + cooperative scheduler with virtual clock and environment choice points + iterative context-bounding DFS (harness/internal/sdrv shards scenarios over worker processes)"},
 {"name": "Q", "path": "harness/internal/bfs", "kind_free_text": "explicit-state BFS over operation sequences, real object as transition function (replay on fresh instance), canonical-state dedup, Go reference models"},
 {"name": "E", "path": "harness/cmd", "kind_free_text": "bounded-exhaustive input enumeration against independent references"},
]
for e in engines:
    e["serves_properties"] = sorted(k for k, c in checks.items() if e["name"] in c["engine"])

m = {
 "version": 1,
 "setup_cmd": "./setup.sh",
 "hooks": {
  "guard": "verif",
  "enable": "./check <id> builds the harness with `go build -tags verif -overlay .build/<id>/overlay.json`; the overlay is written by tools/vrewrite from /repo's current working tree: it adds hooks/<pkg>/zz_verif_*.go (all `//go:build verif`, read-only accessors / reset functions) to the SUT packages, injects the shim packages as virtual directory zverif/ of the golibs module, and replaces the concurrency-bearing files by mechanically rewritten copies (sync/atomic/time imports -> shims, go/send/recv/select -> scheduler calls). Nothing is committed to /repo for hooks.",
  "baseline_off_cmd": "cd /repo && GOFLAGS=-mod=mod GOPROXY=off GOSUMDB=off GOTOOLCHAIN=local go test -vet=off -count=1 -timeout 25m ./...",
  "source_commits": [],
  "add_only": True,
 },
 "engines": engines,
 "checks": [],
 "not_applicable": [],
 "notes": "Every check rebuilds from /repo's current working tree (VERIF_REPO overrides the path for scratch worktrees). Exit 0 = held on everything explored, 1 = VIOLATION line, 2 = infrastructure error. Known (unrepaired) findings and repaired ones are listed in known_findings.txt.",
}
for pid in props:
    if pid in checks:
        c = checks[pid]
        m["checks"].append({
         "property_id": pid,
         "quick_cmd": f"./check {pid} --tier quick",
         "thorough_cmd": f"./check {pid} --tier thorough",
         "evidence_file": f"evidence/{pid}.json",
         "replay_cmd_template": f"./check {pid} --replay {{path}}",
         "engine": c["engine"],
         "level_claimed": {"category": c["cat"], "text": c["text"], "design_ref": f"DESIGN.md section 3, {pid}"},
         "level_note": c["note"],
         "technique": c["tech"],
        })
    else:
        m["not_applicable"].append({"property_id": pid, "reason": wip.get(pid, "check under construction in this session (Engine S harness not finished yet); will be claimed once it passes on the unchanged tree")})
json.dump(m, open(os.path.join(V, "MANIFEST.json"), "w"), indent=1)
print("checks:", len(m["checks"]), "not_applicable:", len(m["not_applicable"]))
