//go:build verif

package timeout

import (
	"container/heap"
	"time"
)

// VerifReset re-creates the package-global dispatcher (one per execution).
//
// The dispatcher is rebuilt the way the package's own init() built it: the capacity of the wake channel is
// taken from the instance init() created (scaled with the pool limit when init() tied it to the limit), so a
// change of init() is not papered over by this hook.
func VerifReset(maxWorkers int, idle time.Duration) {
	if initWakeCap < 0 {
		initWakeCap, initMaxWorkers = cap(cc.wakeCh), cc.maxWorkers
	}
	wakeCap := initWakeCap
	if initWakeCap == initMaxWorkers {
		wakeCap = maxWorkers
	}
	cc = new(callControl)
	cc.futures = &futures{}
	cc.maxWorkers = maxWorkers
	cc.wakeCh = make(chan bool, wakeCap)
	cc.idleTimeout = idle
	heap.Init(cc.futures)
}

var initWakeCap, initMaxWorkers = -1, 0

// VerifState is a read-only view: number of watchers, heap length, and whether
// every queued future knows its own heap index. Call only at quiescence or
// from a thread that cannot race the package lock (controlled scheduler).
func VerifState() (watchers int, heapLen int, idxOK bool) {
	idxOK = true
	for i, f := range *cc.futures {
		if f == nil || f.idx != i {
			idxOK = false
		}
	}
	return cc.watchers, cc.futures.Len(), idxOK
}

// VerifFutureIdx exposes the heap index of a future (-1: not queued).
func VerifFutureIdx(f Future) int {
	if fu, ok := f.(*future); ok {
		return fu.idx
	}
	return -2
}
