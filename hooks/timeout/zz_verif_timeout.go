//go:build verif

package timeout

import (
	"container/heap"
	"time"
)

// VerifReset re-creates the package-global dispatcher (one per execution).
func VerifReset(maxWorkers int, idle time.Duration) {
	cc = new(callControl)
	cc.futures = &futures{}
	cc.maxWorkers = maxWorkers
	cc.wakeCh = make(chan bool, cc.maxWorkers)
	cc.idleTimeout = idle
	heap.Init(cc.futures)
}

// VerifState is a read-only view: number of watchers, heap length, and whether
// every queued future knows its own heap index. Call only at quiescence or
// from a thread that cannot race the package lock (controlled scheduler).
func VerifState() (watchers int, heapLen int, idxOK bool) {
	idxOK = true
	for i, f := range *cc.futures {
		if f == nil || f.idx != i {
			idxOK = false
		}
	}
	return cc.watchers, cc.futures.Len(), idxOK
}

// VerifFutureIdx exposes the heap index of a future (-1: not queued).
func VerifFutureIdx(f Future) int {
	if fu, ok := f.(*future); ok {
		return fu.idx
	}
	return -2
}
