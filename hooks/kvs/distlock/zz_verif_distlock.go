//go:build verif

package dist

import "time"

// VerifSetLease sets the package's lease period used by providers created afterwards.
func VerifSetLease(d time.Duration) { defaultLeaseTimeout = d }
