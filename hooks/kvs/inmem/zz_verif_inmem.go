//go:build verif

package inmem

import (
	"sort"

	"github.com/acquirecloud/golibs/kvs"
)

// VerifWaiters returns the waiter table: key -> number of registered waiters.
// Only meaningful while no other goroutine runs (controlled scheduler) or at quiescence.
func VerifWaiters(st kvs.Storage) map[string]int {
	s := st.(*service)
	res := make(map[string]int, len(s.verChange))
	for k, w := range s.verChange {
		res[k] = w.waiters
	}
	return res
}

// VerifKeys returns the raw key set of the record map (no expiry handling), sorted.
func VerifKeys(st kvs.Storage) []string {
	s := st.(*service)
	var ks []string
	for k := range s.recs {
		ks = append(ks, k)
	}
	sort.Strings(ks)
	return ks
}
