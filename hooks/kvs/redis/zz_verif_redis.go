//go:build verif

package redis

import (
	"github.com/acquirecloud/golibs/kvs"
	"github.com/go-redis/redis/v8"
)

// VerifAddHook installs a go-redis hook on the client behind st (fault injection at the command boundary).
func VerifAddHook(st kvs.Storage, h redis.Hook) {
	st.(*client).rdb.AddHook(h)
}
