//go:build verif

package redis

import (
	"github.com/acquirecloud/golibs/kvs"
	"github.com/go-redis/redis/v8"
)

// VerifAddHook installs a go-redis hook on the client behind st (fault injection at the command boundary).
func VerifAddHook(st kvs.Storage, h redis.Hook) {
	st.(*client).rdb.AddHook(h)
}

// VerifConnsInUse returns how many pooled connections of the client behind st are checked out right now.
func VerifConnsInUse(st kvs.Storage) int {
	ps := st.(*client).rdb.PoolStats()
	return int(ps.TotalConns) - int(ps.IdleConns)
}
