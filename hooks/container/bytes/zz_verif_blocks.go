//go:build verif

package bytes

// VerifBlocksState exposes the private geometry and the free-hint index.
func VerifBlocksState(b *Blocks) (blkSize, blksInSegm, segments, freeIdx int) {
	return b.blkSize, b.blksInSegm, b.segments, b.freeIdx
}
