//go:build verif

package container

// VerifRingState is a read-only view of the ring buffer internals.
func VerifRingState[V any](r *ringBuffer[V]) (rIdx, wIdx int, buf []V) {
	return r.r, r.w, r.buf
}
