//go:build verif

package lru

import (
	"fmt"
	"strings"

	"github.com/acquirecloud/golibs/container/iterable"
)

// VerifItems summarises the inner ordered map of the cache: number of nodes
// reachable from its list head, how many are removed-but-linked, how many
// have a non-zero reference count, Len(), structural problems, a canonical
// dump of the node list and the number of in-flight creations.
func VerifItems[PK any, K comparable, V any](p *ECache[PK, K, V]) (nodes, deleted, refd, length int, problems []string, dump string, inflight int) {
	ns, probs, _ := iterable.VerifMapDump(p.items)
	var b strings.Builder
	for _, n := range ns {
		if n.State == 2 {
			deleted++
		}
		if n.RefCnt != 0 {
			refd++
		}
		fmt.Fprintf(&b, "%d.%d|", n.State, n.RefCnt)
	}
	b.WriteString("pool:" + strings.Join(iterable.VerifPoolDump(p.items), ","))
	return len(ns), deleted, refd, p.items.Len(), probs, b.String(), len(p.inflight)
}

// VerifFirstCost counts the nodes First() has to visit from the list head to
// reach the oldest live entry (or the sentinel).
func VerifFirstCost[PK any, K comparable, V any](p *ECache[PK, K, V]) int {
	ns, _, _ := iterable.VerifMapDump(p.items)
	c := 0
	for _, n := range ns {
		c++
		if n.State != 2 {
			break
		}
	}
	return c
}

// VerifOrder returns the inner keys of the live entries in recency order (least recently used first).
func VerifOrder[PK any, K comparable, V any](p *ECache[PK, K, V]) []string {
	ns, _, _ := iterable.VerifMapDump(p.items)
	var r []string
	for _, n := range ns {
		if n.State == 1 {
			r = append(r, fmt.Sprint(n.Key))
		}
	}
	return r
}

// VerifValues returns the values of the live entries (formatted), in recency order.
func VerifValues[PK any, K comparable, V any](p *ECache[PK, K, V]) []string {
	ns, _, _ := iterable.VerifMapDump(p.items)
	var r []string
	for _, n := range ns {
		if n.State == 1 {
			r = append(r, fmt.Sprint(n.Val.v))
		}
	}
	return r
}
