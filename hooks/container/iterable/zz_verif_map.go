//go:build verif

package iterable

import (
	"fmt"
	"reflect"
	"unsafe"
)

// VerifNode is a pointer-free view of one list node.
type VerifNode[K comparable, V any] struct {
	State  int // 0 sentinel(last), 1 live, 2 deleted
	Key    K
	Val    V
	RefCnt int
}

// VerifMapDump walks the list from head following next pointers and returns
// the nodes, whether the structure is consistent (prev/next symmetry, last is
// the sentinel, head has no prev), and the keys of the value index.
func VerifMapDump[K comparable, V any](im *Map[K, V]) (nodes []VerifNode[K, V], problems []string, idxKeys map[K]int) {
	idxKeys = map[K]int{}
	pos := map[*rlItem[K, V]]int{}
	if im.head == nil {
		return nil, []string{"head is nil"}, idxKeys
	}
	if im.head.prev != nil {
		problems = append(problems, "head.prev != nil")
	}
	var prev *rlItem[K, V]
	n := 0
	for p := im.head; p != nil; p = p.next {
		if n > 10000 {
			problems = append(problems, "list is cyclic or longer than 10000")
			break
		}
		if p.prev != prev {
			problems = append(problems, "prev pointer mismatch")
		}
		pos[p] = n
		nodes = append(nodes, VerifNode[K, V]{State: p.state, Key: p.key, Val: p.val, RefCnt: p.refCnt})
		if p.next == nil {
			if p != im.last {
				problems = append(problems, "list does not end at last")
			}
			if p.state != rlLast {
				problems = append(problems, "tail node is not the sentinel")
			}
		} else if p.state == rlLast {
			problems = append(problems, "sentinel in the middle of the list")
		}
		prev = p
		n++
	}
	for k, it := range im.vals {
		i, ok := pos[it]
		if !ok {
			problems = append(problems, "index entry points to a node that is not reachable from head")
			i = -1
		} else if it.state != rlOk {
			problems = append(problems, "index entry points to a non-live node")
		}
		idxKeys[k] = i
	}
	return nodes, problems, idxKeys
}

// VerifIterPos returns the index (in VerifMapDump order) of the node the
// iterator is parked on, or -1 if it is not reachable from head / closed.
func VerifIterPos[K comparable, V any](im *Map[K, V], it Iterator[MapEntry[K, V]]) int {
	mi, ok := it.(*mapIterator[K, V])
	if !ok || mi.ptr == nil {
		return -1
	}
	n := 0
	for p := im.head; p != nil && n <= 10000; p = p.next {
		if p == mi.ptr {
			return n
		}
		n++
	}
	return -2
}

// VerifPoolDump describes the nodes parked in the map's free list (structural fields only), oldest first.
// Requires the rewritten map.go (the pool is the deterministic shim pool). The field is looked up by name: a tree
// whose Map keeps its spare nodes elsewhere simply has no pool to describe (the deep dump in the state key sees them).
func VerifPoolDump[K comparable, V any](im *Map[K, V]) []string {
	f := reflect.ValueOf(im).Elem().FieldByName("pool")
	if !f.IsValid() || !f.CanAddr() {
		return nil
	}
	p, ok := reflect.NewAt(f.Type(), unsafe.Pointer(f.UnsafeAddr())).Interface().(interface{ Items() []any })
	if !ok {
		return nil
	}
	var r []string
	for _, x := range p.Items() {
		n, ok := x.(*rlItem[K, V])
		if !ok {
			continue
		}
		r = append(r, fmt.Sprintf("s%d/r%d/p%v/n%v", n.state, n.refCnt, n.prev != nil, n.next != nil))
	}
	return r
}
