//go:build verif

package iterable

// VerifMixerState exposes the selector state and the look-ahead flags of a Mixer.
func VerifMixerState[E any](mr *Mixer[E]) (st byte, load1, load2 bool) {
	return mr.st, mr.src1.load, mr.src2.load
}
