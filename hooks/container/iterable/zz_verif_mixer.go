//go:build verif

package iterable

import (
	"fmt"
	"reflect"
	"strings"
)

// VerifMixerState exposes the selector state and the look-ahead flags of a Mixer.
func VerifMixerState[E any](mr *Mixer[E]) (st byte, load1, load2 bool) {
	return mr.st, mr.src1.load, mr.src2.load
}

// VerifMixerDump renders every field of the Mixer value (recursively, whatever fields it has): scalars by value,
// iterator fields by which of the two given input iterators they hold, functions not at all. Two mixers with equal
// dumps over equal inputs behave alike - that is what makes it usable as (part of) a state key.
func VerifMixerDump[E any](mr *Mixer[E], it1, it2 Iterator[E]) string {
	var b strings.Builder
	var walk func(v reflect.Value, name string)
	walk = func(v reflect.Value, name string) {
		switch v.Kind() {
		case reflect.Func:
		case reflect.Interface:
			tag := "other"
			if v.IsNil() {
				tag = "nil"
			} else {
				switch {
				case sameIface(v, reflect.ValueOf(&it1).Elem()):
					tag = "input1"
				case sameIface(v, reflect.ValueOf(&it2).Elem()):
					tag = "input2"
				}
			}
			fmt.Fprintf(&b, "%s=%s ", name, tag)
		case reflect.Struct:
			for i := 0; i < v.NumField(); i++ {
				walk(v.Field(i), name+"."+v.Type().Field(i).Name)
			}
		case reflect.Ptr:
			if v.IsNil() {
				fmt.Fprintf(&b, "%s=nil ", name)
			} else {
				walk(v.Elem(), name+"*")
			}
		default:
			fmt.Fprintf(&b, "%s=%v ", name, v)
		}
	}
	walk(reflect.ValueOf(mr).Elem(), "m")
	return b.String()
}

// sameIface tells whether two interface values hold the same dynamic pointer (or equal comparable value).
func sameIface(a, b reflect.Value) bool {
	if a.IsNil() || b.IsNil() {
		return a.IsNil() && b.IsNil()
	}
	ea, eb := a.Elem(), b.Elem()
	if ea.Type() != eb.Type() {
		return false
	}
	if ea.Kind() == reflect.Ptr {
		return ea.Pointer() == eb.Pointer()
	}
	return false
}
