package vsched

import (
	"fmt"
	"reflect"
)

// Case is one communication clause of a rewritten select.
type Case struct {
	ready func() bool
	do    func()
	Val   any
	Ok    bool
	rc    reflect.SelectCase
}

func closedProbe[T any, C ~chan T | ~<-chan T](ch C) bool {
	// only called when len(ch)==0 and every other party is parked: a
	// non-blocking receive can succeed only on a closed channel.
	select {
	case _, ok := <-ch:
		if ok {
			panic("vsched: value appeared on an empty channel (uninstrumented sender?)")
		}
		return true
	default:
		return false
	}
}

func recvReady[T any, C ~chan T | ~<-chan T](ch C) bool {
	if ch == nil {
		return false
	}
	return len(ch) > 0 || closedProbe[T](ch)
}

// CaseRecv builds a receive clause.
func CaseRecv[T any, C ~chan T | ~<-chan T](ch C) *Case {
	c := &Case{rc: reflect.SelectCase{Dir: reflect.SelectRecv, Chan: reflect.ValueOf(ch)}}
	c.ready = func() bool { return recvReady[T](ch) }
	c.do = func() {
		v, ok := <-ch
		c.Val, c.Ok = v, ok
	}
	return c
}

// CaseSend builds a send clause.
func CaseSend[T any, C ~chan T | ~chan<- T](ch C, v T) *Case {
	c := &Case{rc: reflect.SelectCase{Dir: reflect.SelectSend, Chan: reflect.ValueOf(ch), Send: reflect.ValueOf(v)}}
	c.ready = func() bool {
		if ch == nil {
			return false
		}
		if cap(ch) == 0 {
			panic("vsched: send on unbuffered channel is not supported by the harness")
		}
		return len(ch) < cap(ch)
	}
	c.do = func() { ch <- v }
	return c
}

// Select performs a rewritten select statement and returns the index of the
// clause taken, or -1 for the default clause.
func Select(hasDefault bool, cases ...*Case) int {
	if !s.active {
		rcs := make([]reflect.SelectCase, 0, len(cases)+1)
		for _, c := range cases {
			rcs = append(rcs, c.rc)
		}
		if hasDefault {
			rcs = append(rcs, reflect.SelectCase{Dir: reflect.SelectDefault})
		}
		i, rv, ok := reflect.Select(rcs)
		if i == len(cases) {
			return -1
		}
		if cases[i].rc.Dir == reflect.SelectRecv {
			cases[i].Ok = ok
			if rv.IsValid() {
				cases[i].Val = rv.Interface()
			}
		}
		return i
	}
	if s.aborting {
		if hasDefault {
			return -1
		}
		// being torn down: pretend nothing happened; caller unwinds via Goexit soon
		abortPark()
	}
	var rdy func() bool
	if !hasDefault {
		rdy = func() bool {
			for _, c := range cases {
				if c.ready() {
					return true
				}
			}
			return false
		}
	}
	Point(KChan, "select", rdy)
	var idx []int
	for i, c := range cases {
		if c.ready() {
			idx = append(idx, i)
		}
	}
	if len(idx) == 0 {
		if hasDefault {
			return -1
		}
		panic("vsched: select resumed with no ready case")
	}
	k := 0
	if len(idx) > 1 {
		k = Choose(fmt.Sprintf("select%v", idx), len(idx), true)
	}
	cases[idx[k]].do()
	return idx[k]
}

func abortPark() {
	// a thread that is unwinding (deferred calls) reached a blocking operation:
	// it must not continue; Goexit runs the remaining defers as no-ops.
	goexit()
}

// Recv is a rewritten `<-ch`.
func Recv[T any, C ~chan T | ~<-chan T](ch C) T {
	if !s.active {
		return <-ch
	}
	if s.aborting {
		var z T
		return z
	}
	Point(KChan, "recv", func() bool { return recvReady[T](ch) })
	return <-ch
}

// Recv2 is a rewritten `v, ok := <-ch`.
func Recv2[T any, C ~chan T | ~<-chan T](ch C) (T, bool) {
	if !s.active {
		v, ok := <-ch
		return v, ok
	}
	if s.aborting {
		var z T
		return z, false
	}
	Point(KChan, "recv", func() bool { return recvReady[T](ch) })
	v, ok := <-ch
	return v, ok
}

// Send is a rewritten `ch <- v`.
func Send[T any, C ~chan T | ~chan<- T](ch C, v T) {
	if !s.active {
		ch <- v
		return
	}
	if s.aborting {
		return
	}
	if ch != nil && cap(ch) == 0 {
		panic("vsched: send on unbuffered channel is not supported by the harness")
	}
	Point(KChan, "send", func() bool { return ch != nil && len(ch) < cap(ch) })
	ch <- v
}

// Close is a rewritten close(ch): a scheduling point before the close.
func Close[T any, C ~chan T | ~chan<- T](ch C) {
	close(ch)
}
