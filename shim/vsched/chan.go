package vsched

import (
	"fmt"
	"reflect"
)

// Case is one communication clause of a rewritten select.
type Case struct {
	ready func() bool
	do    func()
	Val   any
	Ok    bool
	rc    reflect.SelectCase
	ptr   uintptr // channel identity
	unbuf bool    // unbuffered channel (rendezvous emulation)
	send  bool
	val   any  // value of a send clause
	taken bool // a receiver took the value of this parked send clause
}

// Unbuffered channels: a send can only complete together with a receive. The real channel cannot be used for
// that (the partner goroutine is parked on its baton, not in the channel operation), so the rendezvous is
// emulated: a receiver parked on the channel makes a send ready, the value travels through a per-channel
// mailbox; a sender parked on the channel makes a receive ready, the receiver takes the value from the parked
// clause. A non-blocking send (select with default) finds no partner unless a receiver is really parked.
func chanPtr(ch any) uintptr {
	v := reflect.ValueOf(ch)
	if !v.IsValid() || v.IsNil() {
		return 0
	}
	return v.Pointer()
}

func (s *sched) parkedReceiver(ptr uintptr, self *thread) *thread {
	for _, t := range s.threads {
		if t == self || t.finished || t.claimed {
			continue
		}
		for _, p := range t.recvOn {
			if p == ptr {
				return t
			}
		}
	}
	return nil
}

func (s *sched) parkedSender(ptr uintptr, self *thread) *Case {
	for _, t := range s.threads {
		if t == self || t.finished {
			continue
		}
		for _, c := range t.sendOn {
			if c.ptr == ptr && !c.taken {
				return c
			}
		}
	}
	return nil
}

func closedProbe[T any, C ~chan T | ~<-chan T](ch C) bool {
	// only called when len(ch)==0 and every other party is parked: a
	// non-blocking receive can succeed only on a closed channel.
	select {
	case _, ok := <-ch:
		if ok {
			panic("vsched: value appeared on an empty channel (uninstrumented sender?)")
		}
		return true
	default:
		return false
	}
}

func recvReady[T any, C ~chan T | ~<-chan T](ch C) bool {
	if ch == nil {
		return false
	}
	return len(ch) > 0 || closedProbe[T](ch)
}

// CaseRecv builds a receive clause.
func CaseRecv[T any, C ~chan T | ~<-chan T](ch C) *Case {
	c := &Case{rc: reflect.SelectCase{Dir: reflect.SelectRecv, Chan: reflect.ValueOf(ch)}, ptr: chanPtr(ch), unbuf: ch != nil && cap(ch) == 0}
	c.ready = func() bool {
		if recvReady[T](ch) {
			return true
		}
		if !c.unbuf || !s.active {
			return false
		}
		return len(s.mailbox[c.ptr]) > 0 || s.parkedSender(c.ptr, s.cur) != nil
	}
	c.do = func() {
		if c.unbuf && s.active {
			if mb := s.mailbox[c.ptr]; len(mb) > 0 {
				c.Val, c.Ok = mb[0], true
				s.mailbox[c.ptr] = mb[1:]
				return
			}
			if !recvReady[T](ch) {
				if ps := s.parkedSender(c.ptr, s.cur); ps != nil {
					ps.taken = true
					c.Val, c.Ok = ps.val, true
					return
				}
			}
		}
		v, ok := <-ch
		c.Val, c.Ok = v, ok
	}
	return c
}

// CaseSend builds a send clause.
func CaseSend[T any, C ~chan T | ~chan<- T](ch C, v T) *Case {
	c := &Case{rc: reflect.SelectCase{Dir: reflect.SelectSend, Chan: reflect.ValueOf(ch), Send: reflect.ValueOf(v)}, ptr: chanPtr(ch), unbuf: ch != nil && cap(ch) == 0, send: true, val: v}
	c.ready = func() bool {
		if ch == nil {
			return false
		}
		if c.unbuf {
			return c.taken || s.parkedReceiver(c.ptr, s.cur) != nil
		}
		return len(ch) < cap(ch)
	}
	c.do = func() {
		if c.unbuf {
			if c.taken {
				return // a receiver already took the value while this thread was parked
			}
			r := s.parkedReceiver(c.ptr, s.cur)
			if r == nil {
				panic("vsched: unbuffered send resumed without a partner")
			}
			r.claimed = true
			if s.mailbox == nil {
				s.mailbox = map[uintptr][]any{}
			}
			s.mailbox[c.ptr] = append(s.mailbox[c.ptr], v)
			return
		}
		ch <- v
	}
	return c
}

// Select performs a rewritten select statement and returns the index of the
// clause taken, or -1 for the default clause.
func Select(hasDefault bool, cases ...*Case) int {
	if !s.active {
		rcs := make([]reflect.SelectCase, 0, len(cases)+1)
		for _, c := range cases {
			rcs = append(rcs, c.rc)
		}
		if hasDefault {
			rcs = append(rcs, reflect.SelectCase{Dir: reflect.SelectDefault})
		}
		i, rv, ok := reflect.Select(rcs)
		if i == len(cases) {
			return -1
		}
		if cases[i].rc.Dir == reflect.SelectRecv {
			cases[i].Ok = ok
			if rv.IsValid() {
				cases[i].Val = rv.Interface()
			}
		}
		return i
	}
	if s.aborting {
		if hasDefault {
			return -1
		}
		// being torn down: pretend nothing happened; caller unwinds via Goexit soon
		abortPark()
	}
	var rdy func() bool
	if !hasDefault {
		rdy = func() bool {
			for _, c := range cases {
				if c.ready() {
					return true
				}
			}
			return false
		}
	}
	if !hasDefault {
		// while parked, this thread is a partner for rendezvous on unbuffered channels
		for _, c := range cases {
			if c.unbuf && c.send {
				s.cur.sendOn = append(s.cur.sendOn, c)
			} else if c.unbuf {
				s.cur.recvOn = append(s.cur.recvOn, c.ptr)
			}
		}
	}
	self := s.cur
	Point(KChan, "select", rdy)
	self.recvOn, self.sendOn, self.claimed = nil, nil, false
	var idx []int
	for i, c := range cases {
		if c.ready() {
			idx = append(idx, i)
		}
	}
	if len(idx) == 0 {
		if hasDefault {
			return -1
		}
		panic("vsched: select resumed with no ready case")
	}
	k := 0
	if len(idx) > 1 {
		k = Choose(fmt.Sprintf("select%v", idx), len(idx), true)
	}
	cases[idx[k]].do()
	return idx[k]
}

func abortPark() {
	// a thread that is unwinding (deferred calls) reached a blocking operation:
	// it must not continue; Goexit runs the remaining defers as no-ops.
	goexit()
}

// Recv is a rewritten `<-ch`.
func Recv[T any, C ~chan T | ~<-chan T](ch C) T {
	if !s.active {
		return <-ch
	}
	if s.aborting {
		var z T
		return z
	}
	if ch != nil && cap(ch) == 0 {
		c := CaseRecv[T](ch)
		Select(false, c)
		if c.Val == nil {
			var z T
			return z
		}
		return c.Val.(T)
	}
	Point(KChan, "recv", func() bool { return recvReady[T](ch) })
	return <-ch
}

// Recv2 is a rewritten `v, ok := <-ch`.
func Recv2[T any, C ~chan T | ~<-chan T](ch C) (T, bool) {
	if !s.active {
		v, ok := <-ch
		return v, ok
	}
	if s.aborting {
		var z T
		return z, false
	}
	if ch != nil && cap(ch) == 0 {
		c := CaseRecv[T](ch)
		Select(false, c)
		if c.Val == nil {
			var z T
			return z, c.Ok
		}
		return c.Val.(T), c.Ok
	}
	Point(KChan, "recv", func() bool { return recvReady[T](ch) })
	v, ok := <-ch
	return v, ok
}

// Send is a rewritten `ch <- v`.
func Send[T any, C ~chan T | ~chan<- T](ch C, v T) {
	if !s.active {
		ch <- v
		return
	}
	if s.aborting {
		return
	}
	if ch != nil && cap(ch) == 0 {
		Select(false, CaseSend[T](ch, v))
		return
	}
	Point(KChan, "send", func() bool { return ch != nil && len(ch) < cap(ch) })
	ch <- v
}

// Close is a rewritten close(ch): a scheduling point before the close.
func Close[T any, C ~chan T | ~chan<- T](ch C) {
	close(ch)
}
