package vsched

import (
	"fmt"
	"hash/fnv"
	"strings"
	"time"
)

// Stats accumulates what an exploration covered.
type Stats struct {
	Executions  int
	Steps       int64 // scheduling steps executed (transitions)
	TreeNodes   int64 // distinct nodes of the choice tree visited (states)
	ChoicePts   int64
	MaxChoices  int
	MaxSteps    int
	Deadlocks   int
	Horizons    int
	Outcomes    map[string]int // harness-defined outcome classes
	BoundP      int
	BoundF      int
	BoundK      int
	Capped      bool // execution cap or deadline hit: not exhaustive within bounds
	DetChecked  int  // executions re-run and compared
	Pruned      int64
	DistinctEnd map[uint64]struct{}
}

func NewStats() *Stats {
	return &Stats{Outcomes: map[string]int{}, DistinctEnd: map[uint64]struct{}{}}
}

// Violation is returned by a check function.
type Violation struct {
	Sig    string // signature used for known-findings matching
	Detail string
}

// Explorer runs the iterative-context-bounding DFS over one scenario.
type Explorer struct {
	Cfg      Config
	Scenario func()
	// Check judges one finished execution; outcome is a short class label
	// used for vacuity statistics.
	Check    func(x *Exec) (outcome string, v *Violation)
	Stats    *Stats
	MaxExecs int       // 0: unlimited
	Deadline time.Time // zero: none
	// Found is set to the first violating execution (with its prefix).
	Found       *Violation
	FoundPath   []int
	FoundExec   *Exec
	InfraErr    string
	StopAtFirst bool
}

// Run explores everything within the budgets of Cfg. Returns false if a
// violation was found (details in e.Found).
func (e *Explorer) Run() bool {
	if e.Stats == nil {
		e.Stats = NewStats()
	}
	e.Stats.BoundP, e.Stats.BoundF, e.Stats.BoundK = e.Cfg.P, e.Cfg.F, e.Cfg.K
	e.explore(nil)
	return e.Found == nil && e.InfraErr == ""
}

func (e *Explorer) stop() bool {
	if e.InfraErr != "" || (e.Found != nil && e.StopAtFirst) {
		return true
	}
	if e.MaxExecs > 0 && e.Stats.Executions >= e.MaxExecs {
		e.Stats.Capped = true
		return true
	}
	if !e.Deadline.IsZero() && e.Stats.Executions%64 == 0 && time.Now().After(e.Deadline) {
		e.Stats.Capped = true
		return true
	}
	return false
}

func traceHash(x *Exec) uint64 {
	h := fnv.New64a()
	for _, n := range x.Notes {
		h.Write([]byte(n))
		h.Write([]byte{0})
	}
	fmt.Fprintf(h, "%d/%d", x.Outcome, len(x.Choices))
	for _, c := range x.Choices {
		fmt.Fprintf(h, ",%d:%d", c.N, c.Chosen)
	}
	return h.Sum64()
}

func (e *Explorer) explore(prefix []int) {
	if e.stop() {
		return
	}
	x := runOnce(e.Cfg, prefix, e.Scenario)
	st := e.Stats
	st.Executions++
	st.Steps += int64(x.Steps)
	st.ChoicePts += int64(len(x.Choices) - len(prefix))
	st.TreeNodes += int64(len(x.Choices)-len(prefix)) + 1
	if len(x.Choices) > st.MaxChoices {
		st.MaxChoices = len(x.Choices)
	}
	if x.Steps > st.MaxSteps {
		st.MaxSteps = x.Steps
	}
	switch x.Outcome {
	case Deadlock:
		st.Deadlocks++
	case Horizon:
		st.Horizons++
	}
	if x.ReplayEr != "" {
		e.InfraErr = "replay divergence: " + x.ReplayEr + " prefix=" + fmt.Sprint(prefix)
		return
	}
	// determinism audit: first 200 executions and every 500th afterwards run twice
	if st.Executions <= 200 || st.Executions%500 == 0 {
		full := make([]int, len(x.Choices))
		for i, c := range x.Choices {
			full[i] = c.Chosen
		}
		y := runOnce(e.Cfg, full, e.Scenario)
		st.DetChecked++
		if traceHash(x) != traceHash(y) || y.ReplayEr != "" {
			e.InfraErr = fmt.Sprintf("nondeterministic replay of %v: %s\nfirst notes: %v\nsecond notes: %v", full, y.ReplayEr, x.Notes, y.Notes)
			return
		}
	}
	outcome, v := e.Check(x)
	st.Outcomes[outcome]++
	st.DistinctEnd[traceHash(x)] = struct{}{}
	if v != nil && e.Found == nil {
		e.Found = v
		e.FoundExec = x
		e.FoundPath = make([]int, len(x.Choices))
		for i, c := range x.Choices {
			e.FoundPath[i] = c.Chosen
		}
		if e.StopAtFirst {
			return
		}
	}
	// budgets spent before each point
	var sp [3]int
	spent := make([][3]int, len(x.Choices))
	for i, c := range x.Choices {
		spent[i] = sp
		k := c.Cost[c.Chosen]
		sp[0] += k[0]
		sp[1] += k[1]
		sp[2] += k[2]
	}
	for i := len(prefix); i < len(x.Choices); i++ {
		c := x.Choices[i]
		for alt := 1; alt < c.N; alt++ {
			k := c.Cost[alt]
			if spent[i][0]+k[0] > e.Cfg.P || spent[i][1]+k[1] > e.Cfg.F || spent[i][2]+k[2] > e.Cfg.K {
				st.Pruned++
				continue
			}
			np := make([]int, i+1)
			for j := 0; j < i; j++ {
				np[j] = x.Choices[j].Chosen
			}
			np[i] = alt
			e.explore(np)
			if e.stop() {
				return
			}
		}
	}
}

// Replay runs one schedule with tracing on and returns the execution.
func Replay(cfg Config, path []int, scenario func()) *Exec {
	cfg.Trace = true
	return runOnce(cfg, path, scenario)
}

// RunDefault runs the scenario once with default choices (sequential engines).
func RunDefault(cfg Config, scenario func()) *Exec {
	return runOnce(cfg, nil, scenario)
}

// FormatTrace renders an execution trace.
func FormatTrace(x *Exec) string {
	var b strings.Builder
	fmt.Fprintf(&b, "outcome=%s steps=%d choices=%d blocked=%v\n", x.Outcome, x.Steps, len(x.Choices), x.Blocked)
	for _, l := range x.Trace {
		b.WriteString(l)
		b.WriteByte('\n')
	}
	for _, p := range x.Panics {
		b.WriteString("PANIC " + p + "\n")
	}
	return b.String()
}

// Merge adds o into s.
func (s *Stats) Merge(o *Stats) {
	s.Executions += o.Executions
	s.Steps += o.Steps
	s.TreeNodes += o.TreeNodes
	s.ChoicePts += o.ChoicePts
	if o.MaxChoices > s.MaxChoices {
		s.MaxChoices = o.MaxChoices
	}
	if o.MaxSteps > s.MaxSteps {
		s.MaxSteps = o.MaxSteps
	}
	s.Deadlocks += o.Deadlocks
	s.Horizons += o.Horizons
	for k, v := range o.Outcomes {
		s.Outcomes[k] += v
	}
	s.Capped = s.Capped || o.Capped
	s.DetChecked += o.DetChecked
	s.Pruned += o.Pruned
	for k := range o.DistinctEnd {
		s.DistinctEnd[k] = struct{}{}
	}
}
