// Package vsched is the controlled scheduler of the verification harness.
//
// It is overlaid INTO the golibs module (virtual directory zverif/vsched) so that
// rewritten SUT sources and the harness share one instance.  When no execution
// is active every entry point falls through to the real primitive, so rewritten
// code behaves exactly like the original when it runs free (e.g. -race audit).
//
// Exactly one virtual thread runs at any instant; all others are parked on their
// private baton channel.  The running thread calls Point() before every
// instrumented operation; Point asks the explorer who runs next.
package vsched

import (
	"fmt"
	"os"
	"runtime"
	"runtime/debug"
	"sort"
	"strings"
	"time"
)

// Kind classifies scheduling points.
type Kind uint8

const (
	KLock   Kind = iota // mutex acquire
	KChan               // channel send / recv / select
	KAtomic             // atomic operation
	KSpawn              // after go statement
	KStep               // statement step (only preemptible when no shim lock is held)
	KEnv                // environment crossing placed by the harness (storage call, redis command, callback)
	KSleep              // timer wait of the harness
	KJoin               // waiting for threads / idleness
	KUnlock             // after mutex release
	KHeld               // just before a mutex release, i.e. inside the critical section: only of interest where the code polls a lock (TryLock), otherwise critical sections are atomic
	kindCount
)

var kindNames = [...]string{"lock", "chan", "atomic", "spawn", "step", "env", "sleep", "join", "unlock", "held"}

func (k Kind) String() string { return kindNames[k] }

// KindMask selects the kinds that are preemption candidates.
type KindMask uint32

func Mask(ks ...Kind) KindMask {
	var m KindMask
	for _, k := range ks {
		m |= 1 << k
	}
	return m
}

const AllKinds KindMask = 1<<kindCount - 1

// ClockPolicy decides when virtual time may advance.
type ClockPolicy int

const (
	// MaxProgress: time advances only when no thread is enabled.
	MaxProgress ClockPolicy = iota
	// Adversarial: the clock may also advance while threads are runnable (costs one K deviation).
	Adversarial
)

// Outcome of one execution.
type Outcome int

const (
	Completed Outcome = iota // thread 0 returned
	Deadlock                 // nothing enabled, no timer pending, thread 0 not finished
	Horizon                  // step cap hit
)

func (o Outcome) String() string { return [...]string{"completed", "deadlock", "horizon"}[o] }

type thread struct {
	id       int
	name     string
	baton    chan struct{}
	gone     chan struct{} // closed when the goroutine has left
	finished bool
	panicked any
	stack    string
	ready    func() bool // nil: enabled
	kind     Kind
	obj      string
	holds    int // shim locks held
	pseudo   func()
	oneShot  bool
	// rendezvous emulation for unbuffered channels (see chan.go)
	recvOn  []uintptr
	sendOn  []*Case
	claimed bool
}

// Choice is one recorded decision of an execution.
type Choice struct {
	N      int      // number of alternatives
	Chosen int      // alternative taken
	Cost   [][3]int // per alternative: preemption, fault, clock deviations
	Label  string
}

type timerEnt struct {
	when  int64
	seq   int
	fire  func()
	alive bool
}

// Sched is the state of the execution in progress.
type sched struct {
	active   bool
	aborting bool
	inPseudo bool // an environment event (pseudo thread) is being executed inline
	cur      *thread
	threads  []*thread
	cfg      Config
	prefix   []int
	choices  []Choice
	steps    int
	outcome  Outcome
	done     chan struct{}
	ended    bool

	now      int64 // virtual ns since epoch0
	timers   []*timerEnt
	timerSeq int
	clockFwd func(delta time.Duration)

	trace    []string
	traceOn  bool
	notes    []string
	spentP   int
	spentF   int
	spentK   int
	replayEr string
	idleWait int
	mailbox  map[uintptr][]any
}

var s sched

// Epoch0 is the virtual clock origin.
var Epoch0 = time.Date(2030, 1, 1, 0, 0, 0, 0, time.UTC)

// Config bounds one exploration.
type Config struct {
	P, F, K  int // budgets: preemptions, faults, clock deviations
	MaxSteps int
	Clock    ClockPolicy
	Preempt  KindMask // kinds at which a runnable thread may be preempted
	Trace    bool
}

// Active reports whether an execution is in progress (shims fall through otherwise).
func Active() bool { return s.active && !s.aborting }

// Aborting reports that the execution is being torn down (shims become no-ops).
func Aborting() bool { return s.active && s.aborting }

// Controlled reports whether shims must not touch real primitives.
func Controlled() bool { return s.active }

// ---------------------------------------------------------------------------
// execution

// Exec is what one execution produced.
type Exec struct {
	Outcome  Outcome
	Choices  []Choice
	Steps    int
	Trace    []string
	Notes    []string
	Panics   []string // panics of threads other than those recovered by the harness
	Blocked  []string // threads still parked at the end
	ReplayEr string
	EndNow   time.Duration
}

// runOnce executes scenario under the given choice prefix.
func runOnce(cfg Config, prefix []int, scenario func()) *Exec {
	if s.active {
		panic("vsched: nested execution")
	}
	execEpoch++
	s = sched{cfg: cfg, prefix: prefix, done: make(chan struct{}), traceOn: cfg.Trace}
	if s.cfg.MaxSteps == 0 {
		s.cfg.MaxSteps = 20000
	}
	s.active = true
	t0 := s.newThread("main", scenario)
	s.cur = t0
	t0.baton <- struct{}{}
	// watchdog: an execution that does not end within a minute of real time is stuck in an operation the
	// scheduler does not control (uninstrumented blocking call): infrastructure error, never a verdict
	wd := time.AfterFunc(90*time.Second, func() {
		fmt.Fprintf(os.Stderr, "INFRASTRUCTURE ERROR: execution stuck for 90s of real time (uninstrumented blocking operation?)\n")
		for _, t := range s.threads {
			fmt.Fprintf(os.Stderr, "  thread %s finished=%v at %s:%s\n", t.name, t.finished, t.kind, t.obj)
		}
		buf := make([]byte, 1<<16)
		fmt.Fprintf(os.Stderr, "%s\n", buf[:runtime.Stack(buf, true)])
		os.Exit(2)
	})
	<-s.done
	wd.Stop()
	// tear down: abort every parked thread, one at a time
	s.aborting = true
	ex := &Exec{Outcome: s.outcome, Choices: s.choices, Steps: s.steps, Trace: s.trace, Notes: s.notes, ReplayEr: s.replayEr, EndNow: time.Duration(s.now)}
	for i := 0; i < len(s.threads); i++ { // threads may not grow during abort, but be safe
		t := s.threads[i]
		if t.pseudo != nil {
			continue
		}
		if !t.finished {
			ex.Blocked = append(ex.Blocked, fmt.Sprintf("%s@%s:%s", t.name, t.kind, t.obj))
			select {
			case t.baton <- struct{}{}:
			default:
			}
		}
		<-t.gone
		if t.panicked != nil {
			ex.Panics = append(ex.Panics, fmt.Sprintf("%s: %v\n%s", t.name, t.panicked, t.stack))
		}
	}
	s.active = false
	s.aborting = false
	return ex
}

type abortSignal struct{}

func (s *sched) newThread(name string, fn func()) *thread {
	t := &thread{id: len(s.threads), name: name, baton: make(chan struct{}, 1), gone: make(chan struct{})}
	s.threads = append(s.threads, t)
	go func() {
		defer close(t.gone)
		<-t.baton
		if s.aborting {
			return
		}
		defer func() {
			if s.aborting {
				// torn down while parked or while unwinding: nothing to hand over
				recover()
				return
			}
			if r := recover(); r != nil {
				t.panicked = r
				t.stack = string(debug.Stack())
			}
			t.finished = true
			s.threadExit(t)
		}()
		fn()
	}()
	return t
}

// threadExit is called on the goroutine of a thread that just finished.
func (s *sched) threadExit(t *thread) {
	if t.id == 0 {
		s.end(Completed)
		return
	}
	next := s.pick(t)
	if next == nil {
		return // execution ended inside pick
	}
	s.cur = next
	next.baton <- struct{}{}
}

func (s *sched) end(o Outcome) {
	if s.ended {
		return
	}
	s.ended = true
	s.outcome = o
	s.aborting = true
	close(s.done)
}

// Point is called by the running thread before an instrumented operation.
// ready==nil means the operation cannot block.
func Point(kind Kind, obj string, ready func() bool) {
	if !s.active || s.aborting {
		return
	}
	if s.inPseudo {
		// an environment event is atomic: its operations are no scheduling points and must not touch the
		// bookkeeping of the thread in whose context the scheduler happens to run it
		if ready != nil && !ready() {
			panic("vsched: environment event would block at " + kind.String() + " " + obj)
		}
		s.steps++
		return
	}
	t := s.cur
	t.kind, t.obj, t.ready = kind, obj, ready
	// fast path: non-candidate kind and enabled -> continue without a decision
	if ready == nil || ready() {
		if s.cfg.Preempt&(1<<kind) == 0 || (kind == KStep && t.holds > 0) {
			s.step(t)
			return
		}
	}
	next := s.pick(t)
	if next == nil {
		// execution ended (deadlock / horizon) while we are at a point: leave
		runtime.Goexit()
	}
	if next != t {
		s.cur = next
		next.baton <- struct{}{}
		<-t.baton
		if s.aborting {
			runtime.Goexit()
		}
	}
	t.ready = nil
}

func (s *sched) step(t *thread) {
	s.steps++
	if s.traceOn {
		s.trace = append(s.trace, fmt.Sprintf("%s %s %s", t.name, t.kind, t.obj))
	}
	if s.steps > s.cfg.MaxSteps {
		s.end(Horizon)
		runtime.Goexit()
	}
}

func (t *thread) enabled() bool {
	if t.finished {
		return false
	}
	return t.ready == nil || t.ready()
}

// pick decides which real thread runs next; pseudo threads chosen on the way
// are executed inline.  from is the thread that is at a point (or just exited).
// Returns nil when the execution ended.
func (s *sched) pick(from *thread) *thread {
	for {
		if s.steps > s.cfg.MaxSteps {
			s.end(Horizon)
			return nil
		}
		var en []*thread
		var cost [][3]int
		fromEnabled := from.enabled()
		if fromEnabled {
			en = append(en, from)
			cost = append(cost, [3]int{})
		}
		pre := 0
		if fromEnabled {
			pre = 1
		}
		realEnabled := fromEnabled
		for _, t := range s.threads {
			if t == from || t.pseudo != nil || t.finished {
				continue
			}
			if t.kind == KJoin && t.obj == "idle" {
				continue
			}
			if t.enabled() {
				en = append(en, t)
				cost = append(cost, [3]int{pre, 0, 0})
				realEnabled = true
			}
		}
		for _, t := range s.threads {
			if t.pseudo == nil || t.finished {
				continue
			}
			if t.enabled() {
				en = append(en, t)
				cost = append(cost, [3]int{pre, 0, 0})
			}
		}
		clockIdx := -1
		if s.timerPending() {
			if !realEnabled {
				clockIdx = len(en)
				en = append(en, nil)
				cost = append(cost, [3]int{})
			} else if s.cfg.Clock == Adversarial {
				clockIdx = len(en)
				en = append(en, nil)
				cost = append(cost, [3]int{0, 0, 1})
			}
		}
		if len(en) == 0 {
			// nothing can move: wake an idle-waiter (lowest id) if any, else deadlock
			var iw *thread
			for _, t := range s.threads {
				if !t.finished && t.pseudo == nil && t.kind == KJoin && t.obj == "idle" && t.ready != nil {
					iw = t
					break
				}
			}
			if iw != nil {
				iw.ready = nil
				iw.obj = "idle-done"
				if iw == from {
					s.step(from)
					return from
				}
				s.steps++
				return iw
			}
			s.end(Deadlock)
			return nil
		}
		idx := 0
		if len(en) > 1 {
			idx = s.decide(len(en), cost, func() string {
				var b strings.Builder
				for i, t := range en {
					if i > 0 {
						b.WriteByte(',')
					}
					if t == nil {
						b.WriteString("clock")
					} else {
						b.WriteString(t.name)
					}
				}
				return b.String()
			})
		}
		if idx == clockIdx {
			s.advanceClock()
			continue
		}
		t := en[idx]
		if t.pseudo != nil {
			s.steps++
			if s.traceOn {
				s.trace = append(s.trace, fmt.Sprintf("%s pseudo", t.name))
			}
			if t.oneShot {
				t.finished = true
			}
			func() {
				s.inPseudo = true
				defer func() { s.inPseudo = false }()
				t.pseudo()
			}()
			continue
		}
		s.step(t)
		return t
	}
}

// decide consults the prefix or takes the default (0) and records the choice.
func (s *sched) decide(n int, cost [][3]int, label func() string) int {
	i := len(s.choices)
	c := 0
	if i < len(s.prefix) {
		c = s.prefix[i]
		if c >= n {
			s.replayEr = fmt.Sprintf("choice %d: prefix wants alt %d of %d", i, c, n)
			c = 0
		}
	}
	ch := Choice{N: n, Chosen: c, Cost: cost}
	if s.traceOn {
		ch.Label = label()
		s.trace = append(s.trace, fmt.Sprintf("  choice#%d {%s} -> %d", i, ch.Label, c))
	}
	s.choices = append(s.choices, ch)
	return c
}

// Choose is an environment choice point with n alternatives; alternative 0 is
// the default answer, every other one costs one unit of the fault budget
// (free==true: costs nothing).
func Choose(label string, n int, free bool) int {
	if !s.active || s.aborting || n <= 1 {
		return 0
	}
	cost := make([][3]int, n)
	if !free {
		for i := 1; i < n; i++ {
			cost[i] = [3]int{0, 1, 0}
		}
	}
	c := s.decide(n, cost, func() string { return label })
	if s.traceOn {
		s.trace = append(s.trace, fmt.Sprintf("%s choose %s=%d", s.cur.name, label, c))
	}
	return c
}

// ---------------------------------------------------------------------------
// threads

// Go starts a new virtual thread (rewritten `go` statements and harness workers).
func Go(fn func()) { GoNamed("", fn) }

// GoNamed starts a named virtual thread.
func GoNamed(name string, fn func()) {
	if !s.active {
		go fn()
		return
	}
	if s.aborting {
		return
	}
	if name == "" {
		name = fmt.Sprintf("g%d", len(s.threads))
	}
	s.newThread(name, fn)
	Point(KSpawn, name, nil)
}

// Pseudo registers an environment event: a one-step pseudo thread that the
// explorer may fire at any scheduling point once ready() holds (nil: always).
func Pseudo(name string, ready func() bool, fn func()) {
	if !s.active || s.aborting {
		panic("vsched.Pseudo outside execution")
	}
	t := &thread{id: len(s.threads), name: name, pseudo: fn, oneShot: true, ready: ready}
	s.threads = append(s.threads, t)
}

// ThreadName returns the name of the running thread.
func ThreadName() string {
	if !s.active || s.cur == nil {
		return ""
	}
	return s.cur.name
}

// ThreadID returns the id of the running thread (-1 outside an execution).
func ThreadID() int {
	if !s.active || s.cur == nil {
		return -1
	}
	return s.cur.id
}

// WaitFor parks the running thread until cond holds (evaluated by the scheduler).
func WaitFor(what string, cond func() bool) {
	Point(KJoin, what, cond)
}

// AwaitIdle parks the running thread until nothing else can move and no timer
// is pending (quiescence).  Other threads may still be blocked: inspect them.
func AwaitIdle() {
	if !s.active || s.aborting {
		return
	}
	Point(KJoin, "idle", func() bool { return false })
}

// AwaitBlocked parks the running thread until no other thread is enabled
// (timers may be pending: time does not advance).
func AwaitBlocked() {
	if !s.active || s.aborting {
		return
	}
	self := s.cur
	Point(KJoin, "blocked", func() bool {
		for _, t := range s.threads {
			if t == self || t.finished || t.pseudo != nil {
				continue
			}
			if t.kind == KJoin && (t.obj == "idle" || t.obj == "blocked") {
				continue
			}
			if t.enabled() {
				return false
			}
		}
		return true
	})
}

// Hold / Release account shim locks held by the running thread.
func Hold(d int) {
	if s.active && !s.aborting && s.cur != nil {
		s.cur.holds += d
	}
}

// Step is inserted before statements of rewritten functions (thorough tiers).
func Step() {
	if !s.active || s.aborting {
		return
	}
	Point(KStep, "", nil)
}

// Note appends an observation to the execution's note list (schedule order).
func Note(format string, a ...any) {
	if !s.active {
		return
	}
	m := fmt.Sprintf(format, a...)
	s.notes = append(s.notes, m)
	if s.traceOn {
		s.trace = append(s.trace, "    # "+m)
	}
}

// StepCount returns the number of scheduling steps so far (logical time).
func StepCount() int { return s.steps }

// ThreadsAlive lists unfinished real threads other than the caller (name@kind:obj).
func ThreadsAlive() []string {
	var r []string
	for _, t := range s.threads {
		if t.pseudo != nil || t.finished || t == s.cur {
			continue
		}
		r = append(r, fmt.Sprintf("%s@%s:%s", t.name, t.kind, t.obj))
	}
	sort.Strings(r)
	return r
}

// ---------------------------------------------------------------------------
// virtual time

// Now returns the virtual clock and advances it by 1ns.
func Now() time.Time {
	if !s.active {
		return time.Now()
	}
	s.now++
	return Epoch0.Add(time.Duration(s.now))
}

// NowPeek returns the virtual clock without advancing it.
func NowPeek() time.Duration { return time.Duration(s.now) }

// AddTimer registers fire to run at now+d; returns a handle for StopTimer.
func AddTimer(d time.Duration, fire func()) *timerEnt {
	s.timerSeq++
	when := s.now + int64(d)
	if d > 0 && when < s.now {
		when = 1<<63 - 1 // saturate: "never" (a delay near the maximum duration must not wrap into the past)
	}
	te := &timerEnt{when: when, seq: s.timerSeq, fire: fire, alive: true}
	s.timers = append(s.timers, te)
	return te
}

// StopTimer cancels te; reports whether it was still pending.
func StopTimer(te *timerEnt) bool {
	if te == nil || !te.alive {
		return false
	}
	te.alive = false
	for i, x := range s.timers {
		if x == te {
			s.timers = append(s.timers[:i], s.timers[i+1:]...)
			break
		}
	}
	return true
}

// TimerHandle is the opaque timer registration.
type TimerHandle = *timerEnt

// farFuture: timers due later than ~146 years of virtual time are "never": the clock does not travel there
// (a delay of math.MaxInt64 is the usual spelling of "no timeout").
const farFuture = int64(1) << 62

func (s *sched) timerPending() bool {
	for _, t := range s.timers {
		if t.when < farFuture {
			return true
		}
	}
	return false
}

// SetClockForward installs a callback invoked with every clock advance.
func SetClockForward(f func(delta time.Duration)) { s.clockFwd = f }

func (s *sched) advanceClock() {
	// earliest deadline (never-timers excluded, see farFuture)
	min := farFuture
	for _, t := range s.timers {
		if t.when < min {
			min = t.when
		}
	}
	if min >= farFuture {
		return
	}
	if min > s.now {
		d := min - s.now
		s.now = min
		if s.clockFwd != nil {
			s.clockFwd(time.Duration(d))
		}
	}
	var due []*timerEnt
	rest := s.timers[:0]
	for _, t := range s.timers {
		if t.when <= s.now {
			due = append(due, t)
		} else {
			rest = append(rest, t)
		}
	}
	s.timers = rest
	sort.Slice(due, func(i, j int) bool {
		if due[i].when != due[j].when {
			return due[i].when < due[j].when
		}
		return due[i].seq < due[j].seq
	})
	s.steps++
	if s.traceOn {
		s.trace = append(s.trace, fmt.Sprintf("clock -> +%v fires %d", time.Duration(s.now), len(due)))
	}
	for _, t := range due {
		t.alive = false
		t.fire()
	}
}

// AdvanceClock moves virtual time forward by d without firing (harness use, sequential engines).
func AdvanceClock(d time.Duration) {
	s.now += int64(d)
	if s.clockFwd != nil {
		s.clockFwd(d)
	}
}

// Sleep parks the running thread for d of virtual time.
func Sleep(d time.Duration) {
	if !s.active {
		time.Sleep(d)
		return
	}
	if s.aborting {
		return
	}
	fired := false
	AddTimer(d, func() { fired = true })
	Point(KSleep, fmt.Sprintf("sleep %v", d), func() bool { return fired })
}

func goexit() { runtime.Goexit() }

// SpawnFromScheduler creates a thread from inside a timer callback.
func SpawnFromScheduler(fn func()) {
	if !s.active || s.aborting {
		return
	}
	s.newThread(fmt.Sprintf("g%d", len(s.threads)), fn)
}

// SleepAlign sleeps for d of virtual time; if a pending timer is due within
// eps of the wake-up instant the deadline is aligned to it exactly, so that
// both become enabled at the same clock step and every order is explored.
func SleepAlign(d, eps time.Duration) {
	if !s.active {
		time.Sleep(d)
		return
	}
	if s.aborting {
		return
	}
	when := s.now + int64(d)
	best := int64(-1)
	for _, t := range s.timers {
		df := t.when - when
		if df < 0 {
			df = -df
		}
		if df <= int64(eps) && (best < 0 || df < best) {
			best = df
			when = t.when
		}
	}
	fired := false
	AddTimer(time.Duration(when-s.now), func() { fired = true })
	Point(KSleep, fmt.Sprintf("sleep %v", d), func() bool { return fired })
}

// DropPseudos retires every environment event that has not fired yet (the
// harness enters a phase in which they must not happen any more).
func DropPseudos() {
	if !s.active {
		return
	}
	for _, t := range s.threads {
		if t.pseudo != nil {
			t.finished = true
		}
	}
}

var execEpoch int64

// Epoch identifies the current execution (shims with per-execution state compare it).
func Epoch() int64 { return execEpoch }
