// Package vtime replaces "time" in rewritten SUT sources: the clock and the
// timers are virtual while an execution is active, real otherwise.
package vtime

import (
	"time"

	"github.com/acquirecloud/golibs/zverif/vsched"
)

type (
	Time     = time.Time
	Duration = time.Duration
	Month    = time.Month
	Location = time.Location
)

const (
	Nanosecond  = time.Nanosecond
	Microsecond = time.Microsecond
	Millisecond = time.Millisecond
	Second      = time.Second
	Minute      = time.Minute
	Hour        = time.Hour
	RFC3339     = time.RFC3339
	RFC3339Nano = time.RFC3339Nano
)

var UTC = time.UTC

func Now() Time { return vsched.Now() }

func Since(t Time) Duration     { return Now().Sub(t) }
func Until(t Time) Duration     { return t.Sub(Now()) }
func Unix(sec, nsec int64) Time { return time.Unix(sec, nsec) }
func UnixMilli(ms int64) Time   { return time.UnixMilli(ms) }
func Date(y int, m Month, d, h, mi, s, ns int, loc *Location) Time {
	return time.Date(y, m, d, h, mi, s, ns, loc)
}
func ParseDuration(s string) (Duration, error) { return time.ParseDuration(s) }

// Timer mirrors time.Timer.
type Timer struct {
	C    <-chan Time
	c    chan Time
	real *time.Timer
	h    vsched.TimerHandle
}

func NewTimer(d Duration) *Timer {
	if !vsched.Controlled() {
		rt := time.NewTimer(d)
		return &Timer{C: rt.C, real: rt}
	}
	t := &Timer{c: make(chan Time, 1)}
	t.C = t.c
	if vsched.Aborting() {
		return t
	}
	t.arm(d)
	return t
}

func (t *Timer) arm(d Duration) {
	c := t.c
	t.h = vsched.AddTimer(d, func() {
		select {
		case c <- vsched.Epoch0.Add(vsched.NowPeek()):
		default:
		}
	})
}

func (t *Timer) Stop() bool {
	if t.real != nil {
		return t.real.Stop()
	}
	if vsched.Aborting() {
		return true
	}
	return vsched.StopTimer(t.h)
}

func (t *Timer) Reset(d Duration) bool {
	if t.real != nil {
		return t.real.Reset(d)
	}
	if vsched.Aborting() {
		return true
	}
	was := vsched.StopTimer(t.h)
	t.arm(d)
	return was
}

func After(d Duration) <-chan Time { return NewTimer(d).C }

func Sleep(d Duration) { vsched.Sleep(d) }

// AfterFunc runs f in its own virtual thread when the timer fires.
func AfterFunc(d Duration, f func()) *Timer {
	if !vsched.Controlled() {
		return &Timer{real: time.AfterFunc(d, f)}
	}
	t := &Timer{c: make(chan Time, 1)}
	t.C = t.c
	if vsched.Aborting() {
		return t
	}
	t.h = vsched.AddTimer(d, func() { vsched.SpawnFromScheduler(f) })
	return t
}
