// Package vctx stands in for package context in rewritten files: everything is the standard package, except that
// deadlines live on the virtual clock of the controlled scheduler. A context.WithTimeout of the standard package arms
// a real timer - under the scheduler virtual hours pass in microseconds of real time, so such a deadline would never
// fire (or fire at a random point): time entering the code through a context must be owned like any other time source.
package vctx

import (
	"context"
	"time"

	"github.com/acquirecloud/golibs/zverif/vsched"
)

type (
	Context         = context.Context
	CancelFunc      = context.CancelFunc
	CancelCauseFunc = context.CancelCauseFunc
)

var (
	Canceled         = context.Canceled
	DeadlineExceeded = context.DeadlineExceeded
)

func Background() Context                                  { return context.Background() }
func TODO() Context                                        { return context.TODO() }
func WithCancel(p Context) (Context, CancelFunc)           { return context.WithCancel(p) }
func WithCancelCause(p Context) (Context, CancelCauseFunc) { return context.WithCancelCause(p) }
func WithValue(p Context, k, v any) Context                { return context.WithValue(p, k, v) }
func Cause(c Context) error                                { return context.Cause(c) }
func WithoutCancel(p Context) Context                      { return context.WithoutCancel(p) }
func AfterFunc(c Context, f func()) (stop func() bool)     { return context.AfterFunc(c, f) }
func WithTimeout(p Context, d time.Duration) (Context, CancelFunc) {
	if !vsched.Controlled() {
		return context.WithTimeout(p, d)
	}
	return withDeadline(p, vsched.Now().Add(d), d)
}

func WithDeadline(p Context, t time.Time) (Context, CancelFunc) {
	if !vsched.Controlled() {
		return context.WithDeadline(p, t)
	}
	return withDeadline(p, t, t.Sub(vsched.Now()))
}

type deadlineCtx struct {
	context.Context
	deadline time.Time
}

func (c *deadlineCtx) Deadline() (time.Time, bool) {
	if pd, ok := c.Context.Deadline(); ok && pd.Before(c.deadline) {
		return pd, true
	}
	return c.deadline, true
}

func (c *deadlineCtx) Err() error {
	err := c.Context.Err()
	if err != nil && context.Cause(c.Context) == context.DeadlineExceeded {
		return context.DeadlineExceeded
	}
	return err
}

func withDeadline(p Context, t time.Time, d time.Duration) (Context, CancelFunc) {
	inner, cancel := context.WithCancelCause(p)
	c := &deadlineCtx{Context: inner, deadline: t}
	if d <= 0 {
		cancel(context.DeadlineExceeded)
		return c, func() {}
	}
	// the timer callback runs in the scheduler when the virtual clock reaches the deadline: it only closes the Done channel
	h := vsched.AddTimer(d, func() { cancel(context.DeadlineExceeded) })
	return c, func() {
		vsched.StopTimer(h)
		cancel(context.Canceled)
	}
}
