// Package vatomic replaces "sync/atomic" in rewritten SUT sources: every
// operation is a scheduling point followed by the real atomic operation.
package vatomic

import (
	"sync/atomic"

	"github.com/acquirecloud/golibs/zverif/vsched"
)

func pt() { vsched.Point(vsched.KAtomic, "", nil) }

func AddInt32(p *int32, d int32) int32     { pt(); return atomic.AddInt32(p, d) }
func AddInt64(p *int64, d int64) int64     { pt(); return atomic.AddInt64(p, d) }
func AddUint32(p *uint32, d uint32) uint32 { pt(); return atomic.AddUint32(p, d) }
func AddUint64(p *uint64, d uint64) uint64 { pt(); return atomic.AddUint64(p, d) }
func LoadInt32(p *int32) int32             { pt(); return atomic.LoadInt32(p) }
func LoadInt64(p *int64) int64             { pt(); return atomic.LoadInt64(p) }
func LoadUint32(p *uint32) uint32          { pt(); return atomic.LoadUint32(p) }
func LoadUint64(p *uint64) uint64          { pt(); return atomic.LoadUint64(p) }
func StoreInt32(p *int32, v int32)         { pt(); atomic.StoreInt32(p, v) }
func StoreInt64(p *int64, v int64)         { pt(); atomic.StoreInt64(p, v) }
func StoreUint32(p *uint32, v uint32)      { pt(); atomic.StoreUint32(p, v) }
func StoreUint64(p *uint64, v uint64)      { pt(); atomic.StoreUint64(p, v) }
func SwapInt32(p *int32, v int32) int32    { pt(); return atomic.SwapInt32(p, v) }
func SwapInt64(p *int64, v int64) int64    { pt(); return atomic.SwapInt64(p, v) }
func CompareAndSwapInt32(p *int32, o, n int32) bool {
	pt()
	return atomic.CompareAndSwapInt32(p, o, n)
}
func CompareAndSwapInt64(p *int64, o, n int64) bool {
	pt()
	return atomic.CompareAndSwapInt64(p, o, n)
}
func CompareAndSwapUint32(p *uint32, o, n uint32) bool {
	pt()
	return atomic.CompareAndSwapUint32(p, o, n)
}
func CompareAndSwapUint64(p *uint64, o, n uint64) bool {
	pt()
	return atomic.CompareAndSwapUint64(p, o, n)
}

// Value mirrors atomic.Value.
type Value struct{ v atomic.Value }

func (x *Value) Load() any                    { pt(); return x.v.Load() }
func (x *Value) Store(val any)                { pt(); x.v.Store(val) }
func (x *Value) Swap(n any) any               { pt(); return x.v.Swap(n) }
func (x *Value) CompareAndSwap(o, n any) bool { pt(); return x.v.CompareAndSwap(o, n) }

type Int32 struct{ v atomic.Int32 }

func (x *Int32) Load() int32                    { pt(); return x.v.Load() }
func (x *Int32) Store(n int32)                  { pt(); x.v.Store(n) }
func (x *Int32) Add(d int32) int32              { pt(); return x.v.Add(d) }
func (x *Int32) Swap(n int32) int32             { pt(); return x.v.Swap(n) }
func (x *Int32) CompareAndSwap(o, n int32) bool { pt(); return x.v.CompareAndSwap(o, n) }

type Int64 struct{ v atomic.Int64 }

func (x *Int64) Load() int64                    { pt(); return x.v.Load() }
func (x *Int64) Store(n int64)                  { pt(); x.v.Store(n) }
func (x *Int64) Add(d int64) int64              { pt(); return x.v.Add(d) }
func (x *Int64) Swap(n int64) int64             { pt(); return x.v.Swap(n) }
func (x *Int64) CompareAndSwap(o, n int64) bool { pt(); return x.v.CompareAndSwap(o, n) }

type Bool struct{ v atomic.Bool }

func (x *Bool) Load() bool                    { pt(); return x.v.Load() }
func (x *Bool) Store(n bool)                  { pt(); x.v.Store(n) }
func (x *Bool) Swap(n bool) bool              { pt(); return x.v.Swap(n) }
func (x *Bool) CompareAndSwap(o, n bool) bool { pt(); return x.v.CompareAndSwap(o, n) }
