// Package vsync replaces "sync" in rewritten SUT sources.
package vsync

import (
	"fmt"
	"sync"

	"github.com/acquirecloud/golibs/zverif/vsched"
)

type (
	Once      = sync.Once
	Locker    = sync.Locker
	WaitGroup = sync.WaitGroup
	Map       = sync.Map
)

var mutexSeq int

// Mutex is sync.Mutex under the controlled scheduler.
type Mutex struct {
	real   sync.Mutex
	locked bool
	id     int
}

func (m *Mutex) label() string {
	if m.id == 0 {
		mutexSeq++
		m.id = mutexSeq
	}
	return fmt.Sprintf("m%d", m.id)
}

func (m *Mutex) Lock() {
	if !vsched.Controlled() {
		m.real.Lock()
		return
	}
	if vsched.Aborting() {
		return
	}
	vsched.Point(vsched.KLock, "", func() bool { return !m.locked })
	if m.locked {
		panic("vsync: scheduler resumed a thread on a locked mutex")
	}
	m.locked = true
	vsched.Hold(1)
}

func (m *Mutex) TryLock() bool {
	if !vsched.Controlled() {
		return m.real.TryLock()
	}
	if vsched.Aborting() {
		return true
	}
	vsched.Point(vsched.KLock, "", nil)
	if m.locked {
		return false
	}
	m.locked = true
	vsched.Hold(1)
	return true
}

func (m *Mutex) Unlock() {
	if !vsched.Controlled() {
		m.real.Unlock()
		return
	}
	if vsched.Aborting() {
		return
	}
	if !m.locked {
		panic("sync: unlock of unlocked mutex")
	}
	m.locked = false
	vsched.Hold(-1)
	vsched.Point(vsched.KUnlock, "", nil)
}

// RWMutex is modelled as an exclusive lock plus reader count.
type RWMutex struct {
	real    sync.RWMutex
	writer  bool
	readers int
}

func (m *RWMutex) Lock() {
	if !vsched.Controlled() {
		m.real.Lock()
		return
	}
	if vsched.Aborting() {
		return
	}
	vsched.Point(vsched.KLock, "", func() bool { return !m.writer && m.readers == 0 })
	m.writer = true
	vsched.Hold(1)
}

func (m *RWMutex) Unlock() {
	if !vsched.Controlled() {
		m.real.Unlock()
		return
	}
	if vsched.Aborting() {
		return
	}
	m.writer = false
	vsched.Hold(-1)
	vsched.Point(vsched.KUnlock, "", nil)
}

func (m *RWMutex) RLock() {
	if !vsched.Controlled() {
		m.real.RLock()
		return
	}
	if vsched.Aborting() {
		return
	}
	vsched.Point(vsched.KLock, "", func() bool { return !m.writer })
	m.readers++
	vsched.Hold(1)
}

func (m *RWMutex) RUnlock() {
	if !vsched.Controlled() {
		m.real.RUnlock()
		return
	}
	if vsched.Aborting() {
		return
	}
	m.readers--
	vsched.Hold(-1)
	vsched.Point(vsched.KUnlock, "", nil)
}

// Pool is sync.Pool; under the controlled scheduler it is a plain LIFO free list (sync.Pool's per-P caches and
// GC-driven eviction are nondeterministic, which would make schedules irreproducible).
type Pool struct {
	New   func() any
	real  sync.Pool
	items []any
	epoch int64 // a pool (possibly a package-level variable) starts every execution empty
}

func (p *Pool) fresh() {
	if e := vsched.Epoch(); p.epoch != e {
		p.epoch, p.items = e, nil
	}
}

func (p *Pool) Get() any {
	if !vsched.Controlled() {
		p.real.New = p.New
		return p.real.Get()
	}
	p.fresh()
	if n := len(p.items); n > 0 {
		x := p.items[n-1]
		p.items = p.items[:n-1]
		return x
	}
	if p.New != nil {
		return p.New()
	}
	return nil
}

func (p *Pool) Put(x any) {
	if !vsched.Controlled() {
		p.real.Put(x)
		return
	}
	p.fresh()
	p.items = append(p.items, x)
}
