// Package vsync replaces "sync" in rewritten SUT sources.
package vsync

import (
	"fmt"
	"sync"

	"github.com/acquirecloud/golibs/zverif/vsched"
)

type (
	Locker = sync.Locker
	Map    = sync.Map
)

// WaitGroup under the controlled scheduler: Wait is a blocking scheduling point.
type WaitGroup struct {
	real sync.WaitGroup
	n    int
}

func (w *WaitGroup) Add(d int) {
	if !vsched.Controlled() {
		w.real.Add(d)
		return
	}
	if vsched.Aborting() {
		return
	}
	w.n += d
	if w.n < 0 {
		panic("sync: negative WaitGroup counter")
	}
}

func (w *WaitGroup) Done() { w.Add(-1) }

func (w *WaitGroup) Wait() {
	if !vsched.Controlled() {
		w.real.Wait()
		return
	}
	if vsched.Aborting() {
		return
	}
	vsched.Point(vsched.KChan, "waitgroup", func() bool { return w.n == 0 })
}

// Once under the controlled scheduler: callers that arrive while f runs wait at a scheduling point.
type Once struct {
	real    sync.Once
	done    bool
	running bool
}

func (o *Once) Do(f func()) {
	if !vsched.Controlled() {
		o.real.Do(f)
		return
	}
	if vsched.Aborting() {
		return
	}
	vsched.Point(vsched.KLock, "once", func() bool { return !o.running })
	if o.done {
		return
	}
	o.running = true
	defer func() { o.running, o.done = false, true }()
	f()
}

var mutexSeq int

// Mutex is sync.Mutex under the controlled scheduler.
type Mutex struct {
	real   sync.Mutex
	locked bool
	id     int
}

func (m *Mutex) label() string {
	if m.id == 0 {
		mutexSeq++
		m.id = mutexSeq
	}
	return fmt.Sprintf("m%d", m.id)
}

func (m *Mutex) Lock() {
	if !vsched.Controlled() {
		m.real.Lock()
		return
	}
	if vsched.Aborting() {
		return
	}
	vsched.Point(vsched.KLock, "", func() bool { return !m.locked })
	if m.locked {
		panic("vsync: scheduler resumed a thread on a locked mutex")
	}
	m.locked = true
	vsched.Hold(1)
}

func (m *Mutex) TryLock() bool {
	if !vsched.Controlled() {
		return m.real.TryLock()
	}
	if vsched.Aborting() {
		return true
	}
	vsched.Point(vsched.KLock, "", nil)
	if m.locked {
		return false
	}
	m.locked = true
	vsched.Hold(1)
	return true
}

func (m *Mutex) Unlock() {
	if !vsched.Controlled() {
		m.real.Unlock()
		return
	}
	if vsched.Aborting() {
		return
	}
	if !m.locked {
		panic("sync: unlock of unlocked mutex")
	}
	vsched.Point(vsched.KHeld, "", nil)
	if !m.locked {
		panic("sync: unlock of unlocked mutex")
	}
	m.locked = false
	vsched.Hold(-1)
	vsched.Point(vsched.KUnlock, "", nil)
}

// RWMutex is modelled as an exclusive lock plus reader count.
type RWMutex struct {
	real    sync.RWMutex
	writer  bool
	readers int
}

func (m *RWMutex) Lock() {
	if !vsched.Controlled() {
		m.real.Lock()
		return
	}
	if vsched.Aborting() {
		return
	}
	vsched.Point(vsched.KLock, "", func() bool { return !m.writer && m.readers == 0 })
	m.writer = true
	vsched.Hold(1)
}

func (m *RWMutex) Unlock() {
	if !vsched.Controlled() {
		m.real.Unlock()
		return
	}
	if vsched.Aborting() {
		return
	}
	m.writer = false
	vsched.Hold(-1)
	vsched.Point(vsched.KUnlock, "", nil)
}

func (m *RWMutex) RLock() {
	if !vsched.Controlled() {
		m.real.RLock()
		return
	}
	if vsched.Aborting() {
		return
	}
	vsched.Point(vsched.KLock, "", func() bool { return !m.writer })
	m.readers++
	vsched.Hold(1)
}

func (m *RWMutex) RUnlock() {
	if !vsched.Controlled() {
		m.real.RUnlock()
		return
	}
	if vsched.Aborting() {
		return
	}
	m.readers--
	vsched.Hold(-1)
	vsched.Point(vsched.KUnlock, "", nil)
}

// Pool is sync.Pool; under the controlled scheduler it is a plain LIFO free list (sync.Pool's per-P caches and
// GC-driven eviction are nondeterministic, which would make schedules irreproducible).
type Pool struct {
	New   func() any
	real  sync.Pool
	items []any
	epoch int64 // a pool (possibly a package-level variable) starts every execution empty
}

// DeterministicPools makes every Pool a plain LIFO free list even outside the controlled scheduler (sequential
// explicit-state searches: the pool content is part of the implementation state and must be reproducible and
// observable). Not goroutine-safe in that mode: each instance must be used by one goroutine.
var DeterministicPools bool

// Items returns the pooled objects, oldest first (deterministic modes only).
func (p *Pool) Items() []any { return p.items }

func (p *Pool) fresh() {
	if e := vsched.Epoch(); p.epoch != e {
		p.epoch, p.items = e, nil
	}
}

func (p *Pool) Get() any {
	if !vsched.Controlled() && !DeterministicPools {
		p.real.New = p.New
		return p.real.Get()
	}
	if vsched.Controlled() {
		p.fresh()
	}
	if n := len(p.items); n > 0 {
		x := p.items[n-1]
		p.items = p.items[:n-1]
		return x
	}
	if p.New != nil {
		return p.New()
	}
	return nil
}

func (p *Pool) Put(x any) {
	if !vsched.Controlled() && !DeterministicPools {
		p.real.Put(x)
		return
	}
	if vsched.Controlled() {
		p.fresh()
	}
	p.items = append(p.items, x)
}
