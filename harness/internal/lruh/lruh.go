// Package lruh is the sequential reference-model harness for the LRU caches
// (C08, and the LRU half of C11).
package lruh

import (
	"errors"
	"fmt"
	"strings"
	"time"

	"github.com/acquirecloud/golibs/container/lru"
	"github.com/acquirecloud/golibs/zverif/vsync"
)

// Op is one cache call. Kind: G GetOrCreate, R Remove, C Clear.
// O1/O2 script the create callback for the first / second creation inside
// the call: 0 ok(fresh) 1 fail 2 ok(expired item; ExpirableCache only) 3 ok(item that expires in the year 3000)
// 4 ok(item that expired in the year 1000) 5 ok, and the create function calls Remove(another key) on the same
// cache before it returns 6 ok, and the create function calls Clear() before it returns.
type Op struct {
	K      byte
	Key    int
	O1, O2 int
}

func (o Op) String() string {
	switch o.K {
	case 'G':
		return fmt.Sprintf("GetOrCreate(%d,create=%d/%d)", o.Key, o.O1, o.O2)
	case 'R':
		return fmt.Sprintf("Remove(%d)", o.Key)
	}
	return "Clear"
}

type ent struct {
	k       int // inner key
	pk      int // outer key it was created under
	v       int // serial number
	expired bool
}

type call struct {
	what string // "create" | "delete"
	pk   int
	v    int
}

// Front is one of the three front-ends behind a common face.
type Front interface {
	GetOrCreate(pk int) (v int, expired bool, err error)
	Remove(pk int) bool
	Clear() int
	Stats() (nodes, deleted, refd, length int, problems []string, dump string, inflight int)
	FirstCost() int
	Order() []string
}

var errCreate = errors.New("scripted create failure")

// Sys couples a front-end with the reference model and the callback ledger.
type Sys struct {
	Kind   string // cache | ecache | expirable
	Cap    int
	Keys   int // number of inner keys
	front  Front
	model  []ent // recency order, oldest first
	serial int
	script []int // outcomes for the create calls of the current op
	calls  []call
}

// inner maps an outer key to the inner key (ECache: two outer keys per inner key).
func (s *Sys) inner(pk int) int {
	if s.Kind == "ecache" || s.Kind == "ecacheptr" {
		return pk / 2
	}
	return pk
}

// nestedKey is the key a create function with outcome 5 removes: the next outer key (cyclically).
func (s *Sys) nestedKey(pk int) int { return (pk + 1) % s.OuterKeys() }

// OuterKeys is the outer key universe.
func (s *Sys) OuterKeys() int {
	if s.Kind == "ecache" || s.Kind == "ecacheptr" {
		return s.Keys * 2
	}
	return s.Keys
}

type item struct {
	v   int
	exp time.Time
}

func (i item) GetValue() any           { return i.v }
func (i item) GetExpiresAt() time.Time { return i.exp }

type cacheFront struct{ c *lru.Cache[int, int] }

func (f cacheFront) GetOrCreate(pk int) (int, bool, error) {
	v, err := f.c.GetOrCreate(pk)
	return v, false, err
}
func (f cacheFront) Remove(pk int) bool { return f.c.Remove(pk) }
func (f cacheFront) Clear() int         { return f.c.Clear() }
func (f cacheFront) Stats() (int, int, int, int, []string, string, int) {
	return lru.VerifItems(f.c.ECache)
}
func (f cacheFront) FirstCost() int  { return lru.VerifFirstCost(f.c.ECache) }
func (f cacheFront) Order() []string { return lru.VerifOrder(f.c.ECache) }

type ecacheFront struct{ c *lru.ECache[int, int, int] }

func (f ecacheFront) GetOrCreate(pk int) (int, bool, error) {
	v, err := f.c.GetOrCreate(pk)
	return v, false, err
}
func (f ecacheFront) Remove(pk int) bool { return f.c.Remove(pk) }
func (f ecacheFront) Clear() int         { return f.c.Clear() }
func (f ecacheFront) Stats() (int, int, int, int, []string, string, int) {
	return lru.VerifItems(f.c)
}
func (f ecacheFront) FirstCost() int  { return lru.VerifFirstCost(f.c) }
func (f ecacheFront) Order() []string { return lru.VerifOrder(f.c) }

// ptrFront: ECache with a NON-comparable, mutable primary key (a pointer to a buffer the caller reuses after
// the call): what the cache stored must keep working although the key object's content changed meanwhile.
type box struct{ v int }

type ptrFront struct {
	c    *lru.ECache[*box, int, int]
	orig map[*box]int
}

func (f ptrFront) GetOrCreate(pk int) (int, bool, error) {
	b := &box{pk}
	f.orig[b] = pk
	v, err := f.c.GetOrCreate(b)
	b.v = 1_000_000 + pk // the caller reuses its key buffer
	return v, false, err
}
func (f ptrFront) Remove(pk int) bool { return f.c.Remove(&box{pk}) }
func (f ptrFront) Clear() int         { return f.c.Clear() }
func (f ptrFront) Stats() (int, int, int, int, []string, string, int) {
	return lru.VerifItems(f.c)
}
func (f ptrFront) FirstCost() int  { return lru.VerifFirstCost(f.c) }
func (f ptrFront) Order() []string { return lru.VerifOrder(f.c) }

type expFront struct {
	c *lru.ExpirableCache[int, item]
}

func (f expFront) GetOrCreate(pk int) (int, bool, error) {
	it, err := f.c.GetOrCreate(pk)
	return it.v, !it.exp.IsZero() && it.exp.Before(time.Now()), err
}
func (f expFront) Remove(pk int) bool { return f.c.Remove(pk) }
func (f expFront) Clear() int         { return f.c.Clear() }
func (f expFront) Stats() (int, int, int, int, []string, string, int) {
	return lru.VerifItems(f.c.Cache.ECache)
}
func (f expFront) FirstCost() int  { return lru.VerifFirstCost(f.c.Cache.ECache) }
func (f expFront) Order() []string { return lru.VerifOrder(f.c.Cache.ECache) }

// New builds a fresh cache of the given kind and capacity.
func init() { vsync.DeterministicPools = true }

func New(kind string, capa, keys int) *Sys {
	s := &Sys{Kind: kind, Cap: capa, Keys: keys}
	create := func(pk int) (int, int, error) {
		o := 0
		if len(s.script) > 0 {
			o = s.script[0]
			s.script = s.script[1:]
		} else {
			o = -1 // unexpected create
		}
		if o == 1 {
			s.calls = append(s.calls, call{"create-fail", pk, 0})
			return 0, o, errCreate
		}
		s.serial++
		mine := s.serial
		s.calls = append(s.calls, call{"create", pk, mine})
		switch o {
		case 5: // re-entrant use from inside the create function (the cache does not hold its mutex here)
			s.front.Remove(s.nestedKey(pk))
		case 6:
			s.front.Clear()
		}
		return mine, o, nil
	}
	switch kind {
	case "cache":
		c, err := lru.NewCache[int, int](capa, func(k int) (int, error) { v, _, e := create(k); return v, e }, func(k, v int) { s.calls = append(s.calls, call{"delete", k, v}) })
		if err != nil {
			panic(err)
		}
		s.front = cacheFront{c}
	case "ecache":
		c, err := lru.NewECache[int, int, int](capa, func(pk int) int { return pk / 2 }, func(k int) (int, error) { v, _, e := create(k); return v, e }, func(k, v int) { s.calls = append(s.calls, call{"delete", k, v}) })
		if err != nil {
			panic(err)
		}
		s.front = ecacheFront{c}
	case "ecacheptr":
		orig := map[*box]int{}
		c, err := lru.NewECache[*box, int, int](capa, func(b *box) int { return b.v / 2 },
			func(b *box) (int, error) { v, _, e := create(orig[b]); return v, e },
			func(b *box, v int) { s.calls = append(s.calls, call{"delete", orig[b], v}) })
		if err != nil {
			panic(err)
		}
		s.front = ptrFront{c, orig}
	case "expirable":
		c, err := lru.NewExpirableCache[int, item](capa, func(k int) (item, error) {
			v, o, e := create(k)
			exp := time.Now().Add(time.Hour)
			switch o {
			case 2:
				exp = time.Now().Add(-time.Hour)
			case 3:
				exp = time.Date(3000, 1, 1, 0, 0, 0, 0, time.UTC) // "never": far beyond the range of UnixNano
			case 4:
				exp = time.Date(1000, 1, 1, 0, 0, 0, 0, time.UTC)
			}
			return item{v, exp}, e
		}, func(k int, it item) { s.calls = append(s.calls, call{"delete", k, it.v}) })
		if err != nil {
			panic(err)
		}
		s.front = expFront{c}
	default:
		panic("kind")
	}
	return s
}

func (s *Sys) find(k int) int {
	for i, e := range s.model {
		if e.k == k {
			return i
		}
	}
	return -1
}

// modelGet applies one inner GetOrCreate to the model, consuming outcomes from
// script; returns value, expired flag, error flag and appends expected calls.
func (s *Sys) modelGet(pk int, script *[]int, serial *int, exp *[]call) (v int, expired bool, failed bool) {
	k := s.inner(pk)
	if i := s.find(k); i >= 0 {
		e := s.model[i]
		s.model = append(append(s.model[:i:i], s.model[i+1:]...), e)
		return e.v, e.expired, false
	}
	o := (*script)[0]
	*script = (*script)[1:]
	if o == 1 {
		*exp = append(*exp, call{"create-fail", pk, 0})
		return 0, false, true
	}
	*serial++
	mine := *serial
	*exp = append(*exp, call{"create", pk, mine})
	switch o {
	case 5:
		if i := s.find(s.inner(s.nestedKey(pk))); i >= 0 {
			e := s.model[i]
			s.model = append(s.model[:i:i], s.model[i+1:]...)
			*exp = append(*exp, call{"delete", e.pk, e.v})
		}
	case 6:
		for _, e := range s.model {
			*exp = append(*exp, call{"delete", e.pk, e.v})
		}
		s.model = nil
	}
	s.model = append(s.model, ent{k, pk, mine, o == 2 || o == 4})
	if len(s.model) > s.Cap {
		old := s.model[0]
		s.model = s.model[1:]
		*exp = append(*exp, call{"delete", old.pk, old.v})
	}
	return mine, o == 2 || o == 4, false
}

// Apply runs the op on the real cache and on the model and compares results and callbacks.
func (s *Sys) Apply(o Op) (sig, detail string) {
	defer func() {
		if r := recover(); r != nil {
			sig, detail = "panic in "+string(o.K), fmt.Sprintf("%v panicked: %v", o, r)
		}
	}()
	bad := func(clause, f string, a ...any) (string, string) {
		return s.Kind + " " + string(o.K) + ":" + clause, fmt.Sprintf("%s cap=%d %v: ", s.Kind, s.Cap, o) + fmt.Sprintf(f, a...)
	}
	s.calls = nil
	var exp []call
	switch o.K {
	case 'G':
		s.script = []int{o.O1, o.O2}
		ms := []int{o.O1, o.O2}
		serial := s.serial
		v, expd, err := s.front.GetOrCreate(o.Key)
		mv, mexp, mfail := s.modelGet(o.Key, &ms, &serial, &exp)
		if s.Kind == "expirable" && !mfail && mexp {
			// documented wrapper behaviour: remove the stale item, create once more, return that result
			if i := s.find(s.inner(o.Key)); i >= 0 {
				e := s.model[i]
				s.model = append(s.model[:i:i], s.model[i+1:]...)
				exp = append(exp, call{"delete", e.pk, e.v})
			}
			mv, mexp, mfail = s.modelGet(o.Key, &ms, &serial, &exp)
		}
		if mfail != (err != nil) {
			return bad("error", "returned err=%v, model failed=%v", err, mfail)
		}
		if !mfail && (v != mv || expd != mexp) {
			return bad("value", "returned value #%d (expired=%v), model expects #%d (expired=%v)", v, expd, mv, mexp)
		}
		if mfail && !errors.Is(err, errCreate) {
			return bad("errkind", "returned %v instead of the create function's error", err)
		}
	case 'R':
		got := s.front.Remove(o.Key)
		i := s.find(s.inner(o.Key))
		if got != (i >= 0) {
			return bad("result", "Remove returned %v, model resident=%v", got, i >= 0)
		}
		if i >= 0 {
			e := s.model[i]
			s.model = append(s.model[:i:i], s.model[i+1:]...)
			exp = append(exp, call{"delete", e.pk, e.v})
		}
	case 'C':
		n := s.front.Clear()
		if n != len(s.model) {
			return bad("count", "Clear returned %d, model had %d resident", n, len(s.model))
		}
		for _, e := range s.model {
			exp = append(exp, call{"delete", e.pk, e.v})
		}
		s.model = nil
	}
	if fmt.Sprint(s.calls) != fmt.Sprint(exp) {
		return bad("callbacks", "callbacks invoked %v, reference LRU expects %v", s.calls, exp)
	}
	_, _, _, length, problems, _, inflight := s.front.Stats()
	if length != len(s.model) {
		return bad("len", "cache holds %d entries, model %d", length, len(s.model))
	}
	if length > s.Cap {
		return bad("capacity", "cache holds %d entries, capacity %d", length, s.Cap)
	}
	if len(problems) > 0 {
		return bad("structure", "inner map: %s", strings.Join(problems, "; "))
	}
	if inflight != 0 {
		return bad("inflight", "in-flight table has %d entries at rest", inflight)
	}
	// the recency order itself (not only what evictions reveal later): least recently used first
	var want []string
	for _, e := range s.model {
		want = append(want, fmt.Sprint(e.k))
	}
	if got := s.front.Order(); fmt.Sprint(got) != fmt.Sprint(want) {
		return bad("recency-order", "recency order of the resident keys is %v, reference LRU has %v (least recently used first)", got, want)
	}
	return "", ""
}

// OverCapacity reports whether the cache holds more entries than its capacity (C11: bounded by the capacity
// however long the history is), independent of any functional disagreement with the model.
func (s *Sys) OverCapacity(o Op) (sig, detail string) {
	_, _, _, length, _, dump, _ := s.front.Stats()
	if length > s.Cap {
		return s.Kind + " capacity", fmt.Sprintf("%s cap=%d after %v: the cache holds %d entries (%s)", s.Kind, s.Cap, o, length, dump)
	}
	return "", ""
}

// Retention is the C11 oracle: nothing beyond live entries (+sentinel) stays reachable.
func (s *Sys) Retention(o Op) (sig, detail string) {
	nodes, deleted, refd, length, _, dump, _ := s.front.Stats()
	if nodes != length+1 || deleted != 0 || refd != 0 {
		return s.Kind + " retention", fmt.Sprintf("%s cap=%d after %v: %d nodes reachable from the list head for %d live entries (removed-but-linked=%d, non-zero refCnt=%d) nodes=%s", s.Kind, s.Cap, o, nodes, length, deleted, refd, dump)
	}
	if c := s.front.FirstCost(); c > 1 {
		return s.Kind + " first-cost", fmt.Sprintf("%s cap=%d after %v: First() has to walk %d nodes", s.Kind, s.Cap, o, c)
	}
	return "", ""
}

// Key is the canonical state: model recency list (values abstracted) + implementation node dump.
func (s *Sys) Key() string {
	var b strings.Builder
	for _, e := range s.model {
		fmt.Fprintf(&b, "%d.%d.%v,", e.k, e.pk, e.expired)
	}
	_, _, _, _, _, dump, _ := s.front.Stats()
	b.WriteString("#" + dump + "#" + strings.Join(s.front.Order(), ","))
	return b.String()
}

// Alphabet enumerates the ops for this front-end.
func (s *Sys) Alphabet() []Op {
	var ops []Op
	outs := []int{0, 1, 5, 6}
	if s.Kind == "expirable" {
		outs = []int{0, 1, 2, 3, 4}
	}
	for pk := 0; pk < s.OuterKeys(); pk++ {
		for _, o1 := range outs {
			if s.Kind == "expirable" && (o1 == 2 || o1 == 4) {
				for _, o2 := range []int{0, 1, 2} {
					ops = append(ops, Op{'G', pk, o1, o2})
				}
			} else {
				ops = append(ops, Op{'G', pk, o1, 0})
			}
		}
		ops = append(ops, Op{'R', pk, 0, 0})
	}
	ops = append(ops, Op{'C', 0, 0, 0})
	return ops
}

func FormatPath(p []Op) string {
	ss := make([]string, len(p))
	for i, o := range p {
		ss[i] = o.String()
	}
	return strings.Join(ss, "; ")
}
