// Package deepdump renders the complete reachable state of an object - every field it has, exported or not,
// through pointers, maps, slices and interfaces - as a canonical string.
//
// The explicit-state searches (Engine Q) deduplicate on a canonical key. A key that lists hand-picked fields is
// only sound while the implementation has no other state; a change that adds a cache, a flag or a counter would
// silently be merged away ("equal key, different future"). A key that contains the deep dump of the real object
// merges two states only if the implementation itself cannot tell them apart: at worst the search gets larger.
//
// Rendering rules: structs field by field; pointers are followed, each distinct target gets a number in visiting
// order and a second visit prints only the number (cycles and sharing are part of the state, addresses are not);
// maps are rendered with sorted keys; functions and channels by kind only (len/cap for channels); values of the
// types named in Opaque (locks, pools of the scheduler shim, ...) by type name only.
package deepdump

import (
	"fmt"
	"reflect"
	"sort"
	"strings"
	"time"
	"unsafe"
)

// Options tune a dump.
type Options struct {
	// Opaque: a value whose type name (as printed by %v of its reflect.Type) starts with one of these prefixes is
	// rendered by its type name only.
	Opaque []string
	// SkipFields: struct fields (by "TypeName.Field") that are left out.
	SkipFields map[string]bool
	// MaxDepth bounds the recursion (0: 64).
	MaxDepth int
}

// DefaultOpaque is what carries no state of the structure under test: locks and wait groups (real or shim).
var DefaultOpaque = []string{"sync.Mutex", "sync.RWMutex", "sync.WaitGroup", "sync.Once", "vsync.Mutex", "vsync.RWMutex", "vsync.WaitGroup", "vsync.Once", "sync.noCopy", "atomic.noCopy", "sync.Pool"}

type dumper struct {
	b     strings.Builder
	seen  map[unsafe.Pointer]int
	opt   Options
	depth int
}

// Dump renders x (usually a pointer to the object under test).
func Dump(x any, opt Options) string {
	if opt.MaxDepth == 0 {
		opt.MaxDepth = 64
	}
	if opt.Opaque == nil {
		opt.Opaque = DefaultOpaque
	}
	d := &dumper{seen: map[unsafe.Pointer]int{}, opt: opt}
	d.walk(reflect.ValueOf(x))
	return d.b.String()
}

var timeType = reflect.TypeOf(time.Time{})

func (d *dumper) opaque(t reflect.Type) bool {
	n := t.String()
	for _, p := range d.opt.Opaque {
		if strings.HasPrefix(n, p) {
			return true
		}
	}
	return false
}

func (d *dumper) walk(v reflect.Value) {
	if !v.IsValid() {
		d.b.WriteString("<nil>")
		return
	}
	d.depth++
	defer func() { d.depth-- }()
	if d.depth > d.opt.MaxDepth {
		d.b.WriteString("<deep>")
		return
	}
	t := v.Type()
	if d.opaque(t) {
		d.b.WriteString("<" + t.String() + ">")
		return
	}
	if t == timeType {
		// wall-clock instant only (the monotonic reading differs between runs)
		var tm time.Time
		if v.CanInterface() {
			tm = v.Interface().(time.Time)
		} else if v.CanAddr() {
			tm = *(*time.Time)(unsafe.Pointer(v.UnsafeAddr()))
		} else {
			c := reflect.New(t).Elem()
			c.Set(reflect.ValueOf(time.Time{}))
			d.b.WriteString("<time>")
			return
		}
		fmt.Fprintf(&d.b, "T%d", tm.UnixNano())
		return
	}
	switch v.Kind() {
	case reflect.Bool:
		fmt.Fprintf(&d.b, "%v", v.Bool())
	case reflect.Int, reflect.Int8, reflect.Int16, reflect.Int32, reflect.Int64:
		fmt.Fprintf(&d.b, "%d", v.Int())
	case reflect.Uint, reflect.Uint8, reflect.Uint16, reflect.Uint32, reflect.Uint64, reflect.Uintptr:
		fmt.Fprintf(&d.b, "%d", v.Uint())
	case reflect.Float32, reflect.Float64:
		fmt.Fprintf(&d.b, "%v", v.Float())
	case reflect.Complex64, reflect.Complex128:
		fmt.Fprintf(&d.b, "%v", v.Complex())
	case reflect.String:
		fmt.Fprintf(&d.b, "%q", v.String())
	case reflect.Func:
		if v.IsNil() {
			d.b.WriteString("func:nil")
		} else {
			d.b.WriteString("func")
		}
	case reflect.Chan:
		if v.IsNil() {
			d.b.WriteString("chan:nil")
		} else {
			fmt.Fprintf(&d.b, "chan(%d/%d)", v.Len(), v.Cap())
		}
	case reflect.UnsafePointer:
		if v.Pointer() == 0 {
			d.b.WriteString("uptr:nil")
		} else {
			d.b.WriteString("uptr")
		}
	case reflect.Ptr:
		if v.IsNil() {
			d.b.WriteString("nil")
			return
		}
		p := unsafe.Pointer(v.Pointer())
		if id, ok := d.seen[p]; ok {
			fmt.Fprintf(&d.b, "^%d", id)
			return
		}
		id := len(d.seen) + 1
		d.seen[p] = id
		fmt.Fprintf(&d.b, "&%d", id)
		d.walk(v.Elem())
	case reflect.Interface:
		if v.IsNil() {
			d.b.WriteString("iface:nil")
			return
		}
		e := v.Elem()
		d.b.WriteString("(" + e.Type().String() + ")")
		d.walk(e)
	case reflect.Struct:
		d.b.WriteString("{")
		for i := 0; i < v.NumField(); i++ {
			f := t.Field(i)
			if d.opt.SkipFields[t.Name()+"."+f.Name] {
				continue
			}
			d.b.WriteString(f.Name + ":")
			d.walk(v.Field(i))
			d.b.WriteString(" ")
		}
		d.b.WriteString("}")
	case reflect.Slice:
		if v.IsNil() {
			d.b.WriteString("[]nil")
			return
		}
		if t.Elem().Kind() == reflect.Uint8 {
			bs := make([]byte, v.Len())
			for i := range bs {
				bs[i] = byte(v.Index(i).Uint())
			}
			fmt.Fprintf(&d.b, "b%q", bs)
			return
		}
		fmt.Fprintf(&d.b, "[%d:", v.Len()) // (the capacity is an allocation detail, not state)
		for i := 0; i < v.Len(); i++ {
			d.walk(v.Index(i))
			d.b.WriteString(",")
		}
		d.b.WriteString("]")
	case reflect.Array:
		d.b.WriteString("[")
		for i := 0; i < v.Len(); i++ {
			d.walk(v.Index(i))
			d.b.WriteString(",")
		}
		d.b.WriteString("]")
	case reflect.Map:
		if v.IsNil() {
			d.b.WriteString("map:nil")
			return
		}
		type kv struct {
			k string
			v reflect.Value
		}
		var kvs []kv
		it := v.MapRange()
		for it.Next() {
			sub := &dumper{seen: d.seen, opt: d.opt, depth: d.depth}
			sub.walk(it.Key())
			kvs = append(kvs, kv{sub.b.String(), it.Value()})
		}
		sort.Slice(kvs, func(a, b int) bool { return kvs[a].k < kvs[b].k })
		d.b.WriteString("map[")
		for _, e := range kvs {
			d.b.WriteString(e.k + ":")
			d.walk(e.v)
			d.b.WriteString(",")
		}
		d.b.WriteString("]")
	default:
		d.b.WriteString("<" + v.Kind().String() + ">")
	}
}
