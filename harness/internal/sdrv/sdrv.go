// Package sdrv drives Engine-S explorations: it shards a list of scenarios
// (jobs) over worker processes, merges their statistics, reports violations
// and writes the evidence file.
package sdrv

import (
	"bytes"
	"encoding/json"
	"fmt"
	"os"
	"os/exec"
	"runtime"
	"sort"
	"strings"
	"sync"
	"syscall"
	"time"

	"github.com/acquirecloud/golibs/zverif/vsched"
	"verifh/internal/ev"
)

// Job is one scenario with its oracle.
type Job struct {
	Name string
	Cfg  vsched.Config
	// Scenario runs inside virtual thread 0.
	Scenario func()
	// Check judges one execution. outcome is a vacuity class.
	Check func(x *vsched.Exec) (outcome string, v *vsched.Violation)
	// MaxExecs caps the job (0: none). A capped job is reported as not exhaustive.
	MaxExecs int
}

type violRec struct {
	Job    string `json:"job"`
	Sig    string `json:"sig"`
	Detail string `json:"detail"`
	Path   []int  `json:"path"`
	Trace  string `json:"trace"`
	P      int    `json:"p"`
}

type workerOut struct {
	Jobs         int            `json:"jobs"`
	JobsCapped   int            `json:"jobs_capped"`
	Execs        int            `json:"execs"`
	Steps        int64          `json:"steps"`
	Nodes        int64          `json:"nodes"`
	Deadlocks    int            `json:"deadlocks"`
	Horizons     int            `json:"horizons"`
	MaxChoices   int            `json:"max_choices"`
	MaxSteps     int            `json:"max_steps"`
	Det          int            `json:"det"`
	Pruned       int64          `json:"pruned"`
	Outcomes     map[string]int `json:"outcomes"`
	DistinctEnds int            `json:"distinct_ends"`
	Viol         []violRec      `json:"viol"`
	Infra        string         `json:"infra"`
	Samples      []string       `json:"samples"`
	Skipped      int            `json:"skipped"`
	JobStats     []jobStat      `json:"job_stats"`
	Known        map[string]int `json:"known"`
}

type jobStat struct {
	Name  string  `json:"name"`
	Execs int     `json:"execs"`
	Secs  float64 `json:"secs"`
}

// Options of a run.
type Options struct {
	Workers   int           // worker processes (0: 16 or NumCPU)
	Budget    time.Duration // wall-clock budget per worker; jobs not started in time are skipped (reported)
	Rule      string
	Bounds    map[string]any
	Extra     map[string]any
	TrustBase []string
	// AddStates/AddTransitions/AddTraces: counts of sequential (Engine Q/E) parts run by the parent before Main
	AddStates, AddTransitions, AddTraces int64
	ExtraSamples                         []any
	NotExhaustive                        bool
}

// Main runs the jobs according to the mode (parent / worker / replay) and never returns.
func Main(run *ev.Run, jobs []Job, opt Options) {
	if only := os.Getenv("VERIF_ONLY"); only != "" && run.Replay == "" {
		// debugging aid: restrict the run to the scenarios whose name contains the given text (never exhaustive then)
		var sel []Job
		for _, j := range jobs {
			if strings.Contains(j.Name, only) {
				sel = append(sel, j)
			}
		}
		jobs = sel
		opt.NotExhaustive = true
	}
	if run.Replay != "" {
		replay(run, jobs)
		return
	}
	if run.IsWorker() {
		worker(run, jobs, opt)
		return
	}
	parent(run, jobs, opt)
}

func worker(run *ev.Run, jobs []Job, opt Options) {
	i, n := run.Shard()
	out := workerOut{Outcomes: map[string]int{}}
	start := time.Now()
	ends := map[uint64]struct{}{}
	_ = i
	for {
		idx := claim(n, i, len(jobs))
		if idx < 0 {
			break
		}
		j := jobs[idx]
		if opt.Budget > 0 && time.Since(start) > opt.Budget {
			out.Skipped++
			continue
		}
		// a listed known finding does not stop the exploration of its scenario: it is counted and the search goes on,
		// so that a different violation in the same scenario is still found
		chk := func(x *vsched.Exec) (string, *vsched.Violation) {
			oc, v := j.Check(x)
			if v != nil {
				if _, known := run.IsKnown(v.Sig); known {
					if out.Known == nil {
						out.Known = map[string]int{}
					}
					out.Known[v.Sig]++
					return "known-finding:" + v.Sig, nil
				}
			}
			return oc, v
		}
		e := &vsched.Explorer{Cfg: j.Cfg, Scenario: j.Scenario, Check: chk, Stats: vsched.NewStats(), MaxExecs: j.MaxExecs, StopAtFirst: true}
		if opt.Budget > 0 {
			e.Deadline = start.Add(opt.Budget)
		}
		t0 := time.Now()
		e.Run()
		st := e.Stats
		out.JobStats = append(out.JobStats, jobStat{j.Name, st.Executions, time.Since(t0).Seconds()})
		out.Jobs++
		if st.Capped {
			out.JobsCapped++
		}
		out.Execs += st.Executions
		out.Steps += st.Steps
		out.Nodes += st.TreeNodes
		out.Deadlocks += st.Deadlocks
		out.Horizons += st.Horizons
		out.Det += st.DetChecked
		out.Pruned += st.Pruned
		if st.MaxChoices > out.MaxChoices {
			out.MaxChoices = st.MaxChoices
		}
		if st.MaxSteps > out.MaxSteps {
			out.MaxSteps = st.MaxSteps
		}
		for k, v := range st.Outcomes {
			out.Outcomes[k] += v
		}
		if len(ends) < 2_000_000 {
			for k := range st.DistinctEnd {
				ends[k] = struct{}{}
			}
		}
		if e.InfraErr != "" {
			out.Infra = j.Name + ": " + e.InfraErr
			break
		}
		if e.Found != nil {
			// re-run the violating schedule 5 times: must reproduce identically
			x := vsched.Replay(j.Cfg, e.FoundPath, j.Scenario)
			_, v0 := j.Check(x)
			stable := v0 != nil && v0.Sig == e.Found.Sig
			for k := 0; k < 4 && stable; k++ {
				y := vsched.Replay(j.Cfg, e.FoundPath, j.Scenario)
				_, v := j.Check(y)
				if v == nil || v.Sig != e.Found.Sig {
					stable = false
				}
			}
			if !stable {
				out.Infra = fmt.Sprintf("%s: violation %q did not reproduce on replay of %v", j.Name, e.Found.Sig, e.FoundPath)
				break
			}
			out.Viol = append(out.Viol, violRec{Job: j.Name, Sig: e.Found.Sig, Detail: e.Found.Detail, Path: e.FoundPath, Trace: vsched.FormatTrace(x), P: j.Cfg.P})
		}
		if len(out.Samples) < 2 {
			x := vsched.Replay(j.Cfg, nil, j.Scenario)
			out.Samples = append(out.Samples, j.Name+" :: default schedule: "+strings.Join(x.Notes, " / "))
		}
	}
	out.DistinctEnds = len(ends)
	b, _ := json.Marshal(out)
	os.Stdout.Write(b)
	os.Stdout.Write([]byte("\n"))
	os.Exit(0)
}

func parent(run *ev.Run, jobs []Job, opt Options) {
	n := opt.Workers
	if n == 0 {
		n = runtime.NumCPU()
		if n > 16 {
			n = 16
		}
	}
	if n > len(jobs) {
		n = len(jobs)
	}
	if n < 1 {
		n = 1
	}
	exe, _ := os.Executable()
	os.MkdirAll(run.VerifDir+"/.build", 0o755)
	qf, err := os.CreateTemp(run.VerifDir+"/.build", "queue-*")
	if err != nil {
		ev.Infra("cannot create queue file: %v", err)
	}
	qf.WriteString("0")
	qf.Close()
	defer os.Remove(qf.Name())
	outs := make([]workerOut, n)
	errs := make([]string, n)
	var wg sync.WaitGroup
	for i := 0; i < n; i++ {
		wg.Add(1)
		go func(i int) {
			defer wg.Done()
			cmd := exec.Command(exe, "-tier", run.Tier, "-shard", fmt.Sprintf("%d/%d", i, n))
			cmd.Env = append(os.Environ(), "GOMAXPROCS=2", "VERIF_QUEUE="+qf.Name())
			var so, se bytes.Buffer
			cmd.Stdout, cmd.Stderr = &so, &se
			err := cmd.Run()
			if err != nil {
				errs[i] = fmt.Sprintf("worker %d: %v\n%s", i, err, tail(se.String(), 60))
				return
			}
			lines := strings.Split(strings.TrimSpace(so.String()), "\n")
			if e := json.Unmarshal([]byte(lines[len(lines)-1]), &outs[i]); e != nil {
				errs[i] = fmt.Sprintf("worker %d: bad output: %v\n%s", i, e, tail(so.String(), 20))
			}
		}(i)
	}
	wg.Wait()
	for _, e := range errs {
		if e != "" {
			ev.Infra("%s", e)
		}
	}
	tot := workerOut{Outcomes: map[string]int{}}
	for _, o := range outs {
		if o.Infra != "" {
			ev.Infra("%s", o.Infra)
		}
		tot.Jobs += o.Jobs
		tot.JobsCapped += o.JobsCapped
		tot.Execs += o.Execs
		tot.Steps += o.Steps
		tot.Nodes += o.Nodes
		tot.Deadlocks += o.Deadlocks
		tot.Horizons += o.Horizons
		tot.Det += o.Det
		tot.Pruned += o.Pruned
		tot.Skipped += o.Skipped
		tot.DistinctEnds += o.DistinctEnds
		if o.MaxChoices > tot.MaxChoices {
			tot.MaxChoices = o.MaxChoices
		}
		if o.MaxSteps > tot.MaxSteps {
			tot.MaxSteps = o.MaxSteps
		}
		for k, v := range o.Outcomes {
			tot.Outcomes[k] += v
		}
		tot.Viol = append(tot.Viol, o.Viol...)
		for k, n := range o.Known {
			if tot.Known == nil {
				tot.Known = map[string]int{}
			}
			tot.Known[k] += n
		}
		tot.Samples = append(tot.Samples, o.Samples...)
	}
	if os.Getenv("VERIF_VERBOSE") != "" {
		var js []jobStat
		for _, o := range outs {
			js = append(js, o.JobStats...)
		}
		sort.Slice(js, func(a, b int) bool { return js[a].Execs > js[b].Execs })
		for i, j := range js {
			if i < 25 || i > len(js)-5 {
				fmt.Printf("  job %-60s execs=%d %.1fs\n", j.Name, j.Execs, j.Secs)
			}
		}
	}
	sort.Slice(tot.Viol, func(a, b int) bool {
		if len(tot.Viol[a].Path) != len(tot.Viol[b].Path) {
			return len(tot.Viol[a].Path) < len(tot.Viol[b].Path)
		}
		return tot.Viol[a].Job < tot.Viol[b].Job
	})
	for k := range tot.Known {
		run.Violation(k, "", nil) // listed: prints the KNOWN-FINDING line at the end
	}
	for _, v := range tot.Viol {
		run.Violation(v.Sig, v.Detail+"\n"+v.Trace, map[string]any{"job": v.Job, "path": v.Path, "cfg_p": v.P})
	}
	samples := []any{}
	for i, s := range tot.Samples {
		if i < 6 {
			samples = append(samples, s)
		}
	}
	samples = append(samples, opt.ExtraSamples...)
	if len(samples) == 0 {
		samples = append(samples, "no sample")
	}
	cov := ev.Coverage{
		"states":                        tot.Nodes + opt.AddStates,
		"transitions":                   tot.Steps + opt.AddTransitions,
		"traces_validated_against_impl": int64(tot.Execs) + opt.AddTraces,
		"executions":                    tot.Execs,
		"scenarios":                     tot.Jobs,
		"scenarios_total":               len(jobs),
		"scenarios_capped":              tot.JobsCapped,
		"scenarios_skipped_budget":      tot.Skipped,
		"distinct_final_observations":   tot.DistinctEnds,
		"outcome_classes":               topOutcomes(tot.Outcomes, 40),
		"outcome_classes_total":         len(tot.Outcomes),
		"deadlock_executions":           tot.Deadlocks,
		"horizon_executions":            tot.Horizons,
		"max_choice_points":             tot.MaxChoices,
		"max_steps":                     tot.MaxSteps,
		"determinism_rechecks":          tot.Det,
		"alternatives_beyond_budget":    tot.Pruned,
		"known_finding_executions":      tot.Known,
		"exhaustive":                    tot.JobsCapped == 0 && tot.Skipped == 0 && !opt.NotExhaustive,
		"bounds":                        opt.Bounds,
		"rule":                          opt.Rule,
		"samples":                       samples,
		"states_meaning":                "nodes of the schedule/choice tree visited (every node is a distinct prefix of decisions); every execution is a run of the real rewritten implementation judged by the oracle",
	}
	for k, v := range opt.Extra {
		cov[k] = v
	}
	fmt.Printf("%s: scenarios=%d executions=%d steps=%d distinct-outcome-classes=%d capped=%d skipped=%d\n", run.Prop, tot.Jobs, tot.Execs, tot.Steps, len(tot.Outcomes), tot.JobsCapped, tot.Skipped)
	run.Finish(cov)
}

// claim returns the next unclaimed job index (dynamic load balancing through a
// flock-protected counter file), or a static i mod n assignment without a queue.
var staticNext = -1

func claim(n, i, total int) int {
	q := os.Getenv("VERIF_QUEUE")
	if q == "" {
		if staticNext < 0 {
			staticNext = i
		} else {
			staticNext += n
		}
		if staticNext >= total {
			return -1
		}
		return staticNext
	}
	f, err := os.OpenFile(q, os.O_RDWR, 0o644)
	if err != nil {
		ev.Infra("queue: %v", err)
	}
	defer f.Close()
	if err := syscall.Flock(int(f.Fd()), syscall.LOCK_EX); err != nil {
		ev.Infra("queue lock: %v", err)
	}
	defer syscall.Flock(int(f.Fd()), syscall.LOCK_UN)
	b := make([]byte, 32)
	k, _ := f.ReadAt(b, 0)
	var cur int
	fmt.Sscan(string(b[:k]), &cur)
	if cur >= total {
		return -1
	}
	f.Truncate(0)
	f.WriteAt([]byte(fmt.Sprint(cur+1)), 0)
	return cur
}

func topOutcomes(m map[string]int, n int) map[string]int {
	type kv struct {
		k string
		v int
	}
	var l []kv
	for k, v := range m {
		l = append(l, kv{k, v})
	}
	sort.Slice(l, func(a, b int) bool { return l[a].v > l[b].v || (l[a].v == l[b].v && l[a].k < l[b].k) })
	r := map[string]int{}
	for i, e := range l {
		if i >= n {
			break
		}
		r[e.k] = e.v
	}
	return r
}

func tail(s string, n int) string {
	ls := strings.Split(s, "\n")
	if len(ls) > n {
		ls = ls[len(ls)-n:]
	}
	return strings.Join(ls, "\n")
}

func replay(run *ev.Run, jobs []Job) {
	b, err := os.ReadFile(run.Replay)
	if err != nil {
		ev.Infra("%v", err)
	}
	var rf struct {
		Signature string `json:"signature"`
		Replay    struct {
			Job  string `json:"job"`
			Path []int  `json:"path"`
		} `json:"replay"`
	}
	if err := json.Unmarshal(b, &rf); err != nil {
		ev.Infra("bad replay file: %v", err)
	}
	for _, j := range jobs {
		if j.Name != rf.Replay.Job {
			continue
		}
		x := vsched.Replay(j.Cfg, rf.Replay.Path, j.Scenario)
		y := vsched.Replay(j.Cfg, rf.Replay.Path, j.Scenario)
		fmt.Println(vsched.FormatTrace(x))
		if strings.Join(x.Notes, "|") != strings.Join(y.Notes, "|") {
			ev.Infra("replay is not deterministic")
		}
		_, v := j.Check(x)
		if v != nil {
			fmt.Printf("VIOLATION property=%s replay=%s\n  signature: %s\n  %s\n", run.Prop, run.Replay, v.Sig, v.Detail)
			os.Exit(1)
		}
		fmt.Println("replay: no violation on this tree")
		os.Exit(0)
	}
	ev.Infra("job %q not found (tier must match the run that produced the replay)", rf.Replay.Job)
}
