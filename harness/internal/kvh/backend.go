// Package kvh holds what the KV-storage properties (C02, C03, C06, C07) share:
// backends (in-memory, Redis through an in-process miniredis), the reference
// model with version tokens and expiry, and the operation alphabet.
package kvh

import (
	"context"
	"net"
	"time"

	"github.com/acquirecloud/golibs/kvs"
	"github.com/acquirecloud/golibs/kvs/inmem"
	kredis "github.com/acquirecloud/golibs/kvs/redis"
	"github.com/acquirecloud/golibs/zverif/vsched"
	"github.com/alicebob/miniredis/v2"
	"github.com/go-redis/redis/v8"
)

// Backend is one storage under test that can be reset to empty.
type Backend interface {
	Name() string
	// Fresh returns an empty storage (previous content and clients are discarded).
	Fresh() kvs.Storage
	// NewClient returns another client of the same storage content (Redis) or the same object (in-memory).
	NewClient() kvs.Storage
	Close()
}

type inmemBackend struct{ st kvs.Storage }

func NewInmem() Backend                        { return &inmemBackend{} }
func (b *inmemBackend) Name() string           { return "inmem" }
func (b *inmemBackend) Fresh() kvs.Storage     { b.st = inmem.New(); return b.st }
func (b *inmemBackend) NewClient() kvs.Storage { return b.st }
func (b *inmemBackend) Close()                 {}

// RedisBackend drives kvs/redis against an in-process miniredis.
type RedisBackend struct {
	mr      *miniredis.Miniredis
	clients []interface{ Close() error }
	// Sched: every command leaving a client connection is a scheduling point.
	Sched   bool
	first   kvs.Storage
	lastNew kvs.Storage
	// OnNewClient is called with every client the backend creates (a harness may install go-redis hooks through
	// an accessor of the package under test)
	OnNewClient func(st kvs.Storage)
}

func NewRedis(sched bool) *RedisBackend {
	mr, err := miniredis.Run()
	if err != nil {
		panic(err)
	}
	return &RedisBackend{mr: mr, Sched: sched}
}

func (b *RedisBackend) Name() string { return "redis" }

type schedConn struct {
	net.Conn
}

func (c schedConn) Write(p []byte) (int, error) {
	vsched.Point(vsched.KEnv, "redis-cmd", nil)
	return c.Conn.Write(p)
}

func (b *RedisBackend) NewClient() kvs.Storage {
	opts := &redis.Options{
		Addr:               b.mr.Addr(),
		MaxRetries:         -1,
		DialTimeout:        5 * time.Second,
		ReadTimeout:        -1,
		WriteTimeout:       -1,
		PoolSize:           8,
		IdleCheckFrequency: -1,
		IdleTimeout:        -1,
		MaxConnAge:         0,
	}
	if b.Sched {
		opts.Dialer = func(ctx context.Context, network, addr string) (net.Conn, error) {
			c, err := net.Dial(network, addr)
			if err != nil {
				return nil, err
			}
			return schedConn{c}, nil
		}
	}
	st := kredis.New(opts)
	if b.OnNewClient != nil {
		b.OnNewClient(st)
	}
	b.lastNew = st
	if c, ok := st.(interface{ Close() error }); ok {
		b.clients = append(b.clients, c)
	}
	return st
}

func (b *RedisBackend) Fresh() kvs.Storage {
	if !b.Sched && b.first != nil {
		// sequential use: keep the connection, only empty the server
		b.mr.FlushAll()
		return b.first
	}
	defer func() {
		if !b.Sched {
			b.first = b.lastNew
		}
	}()
	for _, c := range b.clients {
		c.Close()
	}
	b.clients = nil
	b.mr.FlushAll()
	return b.NewClient()
}

// FastForward moves the server clock (TTL handling) forward.
func (b *RedisBackend) FastForward(d time.Duration) { b.mr.FastForward(d) }

// RawKeys lists the keys as the server stores them.
func (b *RedisBackend) RawKeys() []string { return b.mr.Keys() }

func (b *RedisBackend) Close() {
	for _, c := range b.clients {
		c.Close()
	}
	b.mr.Close()
}
