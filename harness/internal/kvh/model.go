package kvh

import (
	"bytes"
	"context"
	"errors"
	"fmt"
	"regexp"
	"sort"
	"strconv"
	"strings"
	"time"

	gerrors "github.com/acquirecloud/golibs/errors"
	"github.com/acquirecloud/golibs/kvs"
	"github.com/gobwas/glob"
	"verifh/internal/deepdump"
)

// MRec is a record of the reference model.
type MRec struct {
	Val []byte
	Ver int // version token
	Exp *time.Time
}

// Model is the sequential KV contract. Expired records are deleted at their expiration instant (see Expire).
type Model struct {
	Recs    map[string]*MRec
	NextVer int
	// Writer remembers which operation kind wrote each present record last. It is part of the canonical state
	// (when WriterInKey is set): implementations keep hidden per-path bookkeeping (caches, indexes), so two
	// histories with the same observable content but different writers are not merged by the search.
	Writer      map[string]string
	WriterInKey bool
	WriterKeys  map[string]bool // nil: every key; else only these keys carry their writer in the canonical state
	curKind     string
}

func NewModel() *Model { return &Model{Recs: map[string]*MRec{}, Writer: map[string]string{}} }

// Expire drops every record whose expiration time has passed at now.
func (m *Model) Expire(now time.Time) {
	for k, r := range m.Recs {
		if r.Exp != nil && !r.Exp.After(now) {
			delete(m.Recs, k)
		}
	}
}

func (m *Model) write(k string, v []byte, exp *time.Time) int {
	m.Writer[k] = m.curKind
	m.NextVer++
	m.Recs[k] = &MRec{Val: v, Ver: m.NextVer, Exp: exp}
	return m.NextVer
}

// VerKind selects the version argument of CasByVersion / WaitForVersionChange.
type VerKind int

const (
	VCurrent VerKind = iota
	VStale
	VNever
	VEmpty
)

func (v VerKind) String() string { return [...]string{"current", "stale", "never-issued", "empty"}[v] }

// Op is one storage operation of the alphabet.
type Op struct {
	Kind string // create put putmany get getmany cas delete list
	Key  string
	Val  int // 0 nil, 1 "", 2 "x", 3 "y"
	Exp  int // 0 none, 1 +1h, 2 +100h
	Ver  VerKind
	Keys []string // getmany / putmany keys
	Vals []int    // putmany values
	Exps []int    // putmany expiries
	Pat  string
}

var values = [][]byte{nil, {}, []byte("x"), []byte("y")}

func (o Op) String() string {
	switch o.Kind {
	case "create", "put":
		return fmt.Sprintf("%s(%s,v%d,e%d)", o.Kind, o.Key, o.Val, o.Exp)
	case "cas":
		return fmt.Sprintf("cas(%s,v%d,e%d,ver=%s)", o.Key, o.Val, o.Exp, o.Ver)
	case "get", "delete":
		return fmt.Sprintf("%s(%s)", o.Kind, o.Key)
	case "getmany":
		return fmt.Sprintf("getmany(%s)", strings.Join(o.Keys, ","))
	case "putmany":
		return fmt.Sprintf("putmany(%s;v%v;e%v)", strings.Join(o.Keys, ","), o.Vals, o.Exps)
	case "list":
		return fmt.Sprintf("list(%q)", o.Pat)
	}
	return o.Kind
}

// Driver couples one backend instance with the version-token bookkeeping.
type Driver struct {
	Name  string
	St    kvs.Storage
	Tok   map[string]int    // implementation version string -> model token
	Cur   map[string]string // key -> current implementation version string (as last reported)
	Stale map[string]string // key -> some older version string of this key
	Base  time.Time         // "now" used to compute expiry instants
	// TwoIterators: every "list" operation opens and drains a second listing while the first iterator is still unread
	TwoIterators bool
	// ExpDur maps the expiry code of an Op to a duration after Base (default: none, +1h, +100h)
	ExpDur []time.Duration
}

func NewDriver(name string, st kvs.Storage, base time.Time) *Driver {
	return &Driver{Name: name, St: st, Tok: map[string]int{}, Cur: map[string]string{}, Stale: map[string]string{}, Base: base}
}

// Special ExpDur entries: absolute instants outside the range an int64 of nanoseconds since 1970 can hold.
const (
	ExpNeverSentinel = time.Duration(1<<63 - 1) // 9999-12-31, the usual "never expires" sentinel
	ExpAncient       = time.Duration(-1 << 63)  // 1000-01-01, expired long ago
)

func (d *Driver) exp(e int) *time.Time {
	if d.ExpDur != nil {
		if e == 0 {
			return nil
		}
		switch d.ExpDur[e] {
		case ExpNeverSentinel:
			t := time.Date(9999, 12, 31, 23, 59, 59, 0, time.UTC)
			return &t
		case ExpAncient:
			t := time.Date(1000, 1, 1, 0, 0, 0, 0, time.UTC)
			return &t
		}
		t := d.Base.Add(d.ExpDur[e])
		return &t
	}
	switch e {
	case 1:
		t := d.Base.Add(time.Hour)
		return &t
	case 2:
		t := d.Base.Add(100 * time.Hour)
		return &t
	}
	return nil
}

// bind records that the implementation reported version string s for a write that the model numbered tok.
func (d *Driver) bind(key, s string, tok int) string {
	if s == "" {
		return fmt.Sprintf("%s: write of %q returned an empty version", d.Name, key)
	}
	if old, ok := d.Tok[s]; ok && old != tok {
		return fmt.Sprintf("%s: version %q handed out for write #%d of %q was already handed out for write #%d", d.Name, s, tok, key, old)
	}
	d.Tok[s] = tok
	if c, ok := d.Cur[key]; ok && c != s {
		d.Stale[key] = c
	}
	d.Cur[key] = s
	return ""
}

func (d *Driver) VerArg(key string, k VerKind) (string, bool) {
	switch k {
	case VCurrent:
		s, ok := d.Cur[key]
		return s, ok
	case VStale:
		s, ok := d.Stale[key]
		return s, ok
	case VNever:
		return "01HZZZZZZZZZZZZZZZZZZZZZZZ", true
	}
	return "", true
}

func sameExp(a, b *time.Time) bool {
	if a == nil || b == nil {
		return a == nil && b == nil
	}
	return a.Equal(*b)
}

func fmtExp(t *time.Time) string {
	if t == nil {
		return "none"
	}
	return t.UTC().Format(time.RFC3339Nano)
}

// checkRec compares a returned record with the model record.
func (d *Driver) checkRec(what, key string, got kvs.Record, want *MRec) string {
	if got.Key != key {
		return fmt.Sprintf("%s: %s returned key %q, want %q", d.Name, what, got.Key, key)
	}
	if !bytes.Equal(got.Value, want.Val) {
		return fmt.Sprintf("%s: %s(%s) returned value %q, last written %q", d.Name, what, key, got.Value, want.Val)
	}
	if !sameExp(got.ExpiresAt, want.Exp) {
		return fmt.Sprintf("%s: %s(%s) returned expiry %s, last written %s", d.Name, what, key, fmtExp(got.ExpiresAt), fmtExp(want.Exp))
	}
	if tok, ok := d.Tok[got.Version]; !ok || tok != want.Ver {
		return fmt.Sprintf("%s: %s(%s) returned version %q (token %d, known=%v), the record was last written as version token %d", d.Name, what, key, got.Version, tok, ok, want.Ver)
	}
	return ""
}

func ErrClass(err error) string {
	switch {
	case err == nil:
		return "nil"
	case gerrors.Is(err, gerrors.ErrExist):
		return "ErrExist"
	case gerrors.Is(err, gerrors.ErrNotExist):
		return "ErrNotExist"
	case gerrors.Is(err, gerrors.ErrConflict):
		return "ErrConflict"
	case errors.Is(err, context.Canceled):
		return "Canceled"
	}
	return "other(" + err.Error() + ")"
}

// Step applies op to the implementation behind d and compares with the model's
// prescription. The model itself is advanced by the caller exactly once per op
// (see Model.Apply); want carries the prescription. Returns (clause, detail).
type Want struct {
	Err     string // error class
	Tok     int    // version token of the write performed (0: none)
	Toks    []int  // putmany: token per record
	Rec     *MRec  // get/put/cas result
	Recs    []*MRec
	Keys    []string // list result, sorted
	All     []string // list: every present key
	Skip    bool     // operation not applicable in this state (e.g. stale version unknown)
	StoredV int      // create on present key: token of the stored version
}

// Apply advances the model by op and returns the prescription.
func (m *Model) Apply(o Op, d0 *Driver) Want {
	m.curKind = o.Kind
	ex := func(e int) *time.Time { return d0.exp(e) }
	switch o.Kind {
	case "create":
		if r, ok := m.Recs[o.Key]; ok {
			return Want{Err: "ErrExist", StoredV: r.Ver}
		}
		return Want{Err: "nil", Tok: m.write(o.Key, values[o.Val], ex(o.Exp))}
	case "put":
		t := m.write(o.Key, values[o.Val], ex(o.Exp))
		return Want{Err: "nil", Tok: t, Rec: m.Recs[o.Key]}
	case "putmany":
		w := Want{Err: "nil"}
		for i, k := range o.Keys {
			w.Toks = append(w.Toks, m.write(k, values[o.Vals[i]], ex(o.Exps[i])))
		}
		return w
	case "get":
		r, ok := m.Recs[o.Key]
		if !ok {
			return Want{Err: "ErrNotExist"}
		}
		return Want{Err: "nil", Rec: r}
	case "getmany":
		w := Want{Err: "nil"}
		for _, k := range o.Keys {
			w.Recs = append(w.Recs, m.Recs[k])
		}
		return w
	case "cas":
		r, ok := m.Recs[o.Key]
		if !ok {
			return Want{Err: "ErrNotExist"}
		}
		if o.Ver != VCurrent {
			return Want{Err: "ErrConflict"}
		}
		_ = r
		t := m.write(o.Key, values[o.Val], ex(o.Exp))
		return Want{Err: "nil", Tok: t, Rec: m.Recs[o.Key]}
	case "delete":
		if _, ok := m.Recs[o.Key]; !ok {
			return Want{Err: "ErrNotExist"}
		}
		delete(m.Recs, o.Key)
		return Want{Err: "nil"}
	case "list":
		g, gerr := glob.Compile(o.Pat)
		if gerr != nil {
			// the pattern syntax is gobwas/glob's: what that library rejects is refused, every time, and nothing is listed
			return Want{Err: "invalid-pattern"}
		}
		w := Want{Err: "nil", Keys: []string{}}
		for k := range m.Recs {
			w.All = append(w.All, k)
			if g.Match(k) {
				w.Keys = append(w.Keys, k)
			}
		}
		sort.Strings(w.Keys)
		return w
	}
	panic("op kind " + o.Kind)
}

// Exec runs op on the implementation and compares with want. pre is the model
// state BEFORE the op for the keys it touches (needed for version arguments).
func (d *Driver) Exec(o Op, w Want) (clause, detail string) {
	defer func() {
		if r := recover(); r != nil {
			clause, detail = d.Name+" "+o.Target()+":panic", fmt.Sprintf("%s %v panicked: %v", d.Name, o, r)
		}
	}()
	ctx := context.Background()
	bad := func(cl, f string, a ...any) (string, string) {
		return d.Name + " " + o.Target() + ":" + cl, fmt.Sprintf("%s %v: ", d.Name, o) + fmt.Sprintf(f, a...)
	}
	switch o.Kind {
	case "create":
		ver, err := d.St.Create(ctx, kvs.Record{Key: o.Key, Value: values[o.Val], ExpiresAt: d.exp(o.Exp), Version: "caller-supplied"})
		if ErrClass(err) != w.Err {
			return bad("error", "returned %s, contract says %s", ErrClass(err), w.Err)
		}
		if err == nil {
			if msg := d.bind(o.Key, ver, w.Tok); msg != "" {
				return bad("version", "%s", msg)
			}
		} else if tok, ok := d.Tok[ver]; !ok || tok != w.StoredV {
			return bad("errexist-version", "ErrExist must report the stored version (token %d); returned %q", w.StoredV, ver)
		}
	case "put":
		r, err := d.St.Put(ctx, kvs.Record{Key: o.Key, Value: values[o.Val], ExpiresAt: d.exp(o.Exp), Version: "caller-supplied"})
		if ErrClass(err) != w.Err {
			return bad("error", "returned %s, contract says %s", ErrClass(err), w.Err)
		}
		if msg := d.bind(o.Key, r.Version, w.Tok); msg != "" {
			return bad("version", "%s", msg)
		}
		if msg := d.checkRec("Put", o.Key, r, w.Rec); msg != "" {
			return bad("result", "%s", msg)
		}
	case "putmany":
		var rs []kvs.Record
		for i, k := range o.Keys {
			rs = append(rs, kvs.Record{Key: k, Value: values[o.Vals[i]], ExpiresAt: d.exp(o.Exps[i]), Version: "caller-supplied"})
		}
		err := d.St.PutMany(ctx, rs)
		if ErrClass(err) != w.Err {
			return bad("error", "returned %s, contract says %s", ErrClass(err), w.Err)
		}
		// the new versions are only observable through Get: learn them now
		last := map[string]int{}
		for i, k := range o.Keys {
			last[k] = w.Toks[i]
		}
		for k, tok := range last {
			r, err := d.St.Get(ctx, k)
			if err != nil {
				return bad("readback", "Get(%s) after PutMany: %v", k, err)
			}
			if r.Version == "caller-supplied" {
				return bad("version-not-fresh", "record %q was stored under the caller's version string, no new version was assigned", k)
			}
			if msg := d.bind(k, r.Version, tok); msg != "" {
				return bad("version", "%s", msg)
			}
		}
	case "get":
		r, err := d.St.Get(ctx, o.Key)
		if ErrClass(err) != w.Err {
			return bad("error", "returned %s, contract says %s", ErrClass(err), w.Err)
		}
		if err == nil {
			if msg := d.checkRec("Get", o.Key, r, w.Rec); msg != "" {
				return bad("result", "%s", msg)
			}
		}
	case "getmany":
		rs, err := d.St.GetMany(ctx, o.Keys...)
		if ErrClass(err) != w.Err {
			return bad("error", "returned %s, contract says %s", ErrClass(err), w.Err)
		}
		if len(rs) != len(o.Keys) {
			return bad("length", "returned %d entries for %d keys", len(rs), len(o.Keys))
		}
		for i, k := range o.Keys {
			if (rs[i] == nil) != (w.Recs[i] == nil) {
				return bad("presence", "entry %d (%s): returned present=%v, model present=%v", i, k, rs[i] != nil, w.Recs[i] != nil)
			}
			if rs[i] != nil {
				if msg := d.checkRec("GetMany", k, *rs[i], w.Recs[i]); msg != "" {
					return bad("result", "%s", msg)
				}
			}
		}
	case "cas":
		ver, ok := d.VerArg(o.Key, o.Ver)
		if !ok {
			ver = "01HZZZZZZZZZZZZZZZZZZZZZZY"
		}
		r, err := d.St.CasByVersion(ctx, kvs.Record{Key: o.Key, Value: values[o.Val], ExpiresAt: d.exp(o.Exp), Version: ver})
		if ErrClass(err) != w.Err {
			return bad("error", "with version %s returned %s, contract says %s", o.Ver, ErrClass(err), w.Err)
		}
		if err == nil {
			if msg := d.bind(o.Key, r.Version, w.Tok); msg != "" {
				return bad("version", "%s", msg)
			}
			if msg := d.checkRec("CasByVersion", o.Key, r, w.Rec); msg != "" {
				return bad("result", "%s", msg)
			}
		}
	case "delete":
		err := d.St.Delete(ctx, o.Key)
		if ErrClass(err) != w.Err {
			return bad("error", "returned %s, contract says %s", ErrClass(err), w.Err)
		}
		if err == nil {
			if c, ok := d.Cur[o.Key]; ok {
				d.Stale[o.Key] = c
				delete(d.Cur, o.Key)
			}
		}
	case "list":
		it, err := d.St.ListKeys(ctx, o.Pat)
		if w.Err == "invalid-pattern" {
			if err == nil {
				var got []string
				for it != nil && it.HasNext() {
					k, _ := it.Next()
					got = append(got, k)
				}
				return bad("error", "accepted a pattern that is not valid gobwas/glob syntax and listed %q", got)
			}
			return "", ""
		}
		if ErrClass(err) != w.Err {
			return bad("error", "returned %s, contract says %s", ErrClass(err), w.Err)
		}
		// a second listing is opened and consumed while the first iterator is still unread: what an iterator delivers
		// was decided when it was created, whatever the storage is asked later
		if !d.TwoIterators {
		} else if it2, err2 := d.St.ListKeys(ctx, "*"); err2 == nil && it2 != nil {
			for it2.HasNext() {
				if _, ok := it2.Next(); !ok {
					break
				}
			}
			it2.Close()
		}
		got := []string{}
		for it.HasNext() {
			k, ok := it.Next()
			if !ok {
				break
			}
			got = append(got, k)
		}
		it.Close()
		sort.Strings(got)
		if fmt.Sprint(got) != fmt.Sprint(w.Keys) {
			// signature: which kind of key is extra / missing (a slash-prefixed key and its stripped alias are
			// kinds of their own, so that the known key-mapping finding does not hide other ListKeys defects)
			class := map[string]bool{}
			in := func(l []string, k string) bool {
				for _, x := range l {
					if x == k {
						return true
					}
				}
				return false
			}
			for _, k := range got {
				if !in(w.Keys, k) {
					if in(w.All, "/"+k) {
						class["extra:stripped-alias"] = true
					} else {
						class["extra:plain"] = true
					}
				}
			}
			for _, k := range w.Keys {
				if !in(got, k) {
					if strings.HasPrefix(k, "/") {
						class["missing:slash-key"] = true
					} else {
						class["missing:plain"] = true
					}
				}
			}
			var cs []string
			for c := range class {
				cs = append(cs, c)
			}
			sort.Strings(cs)
			return bad("keys "+strings.Join(cs, "+"), "returned %q, present keys matching the pattern are %q", got, w.Keys)
		}
	}
	return "", ""
}

// Target names the operation and the key(s)/pattern it addresses (part of violation signatures).
func (o Op) Target() string {
	switch o.Kind {
	case "getmany", "putmany":
		return o.Kind + "(" + strings.Join(o.Keys, ",") + ")"
	case "list":
		return o.Kind + "(" + o.Pat + ")"
	}
	return o.Kind + "(" + o.Key + ")"
}

// Observe reads the full observable state (Get of every key + ListKeys *) and compares with the model.
func (d *Driver) Observe(o Op, m *Model, keys []string) (clause, detail string) {
	defer func() {
		if r := recover(); r != nil {
			clause, detail = d.Name+" "+o.Target()+":then panic", fmt.Sprintf("%s: reading the state back after %v panicked: %v", d.Name, o, r)
		}
	}()
	ctx := context.Background()
	for _, k := range keys {
		r, err := d.St.Get(ctx, k)
		mr, ok := m.Recs[k]
		if ok != (err == nil) {
			return d.Name + " " + o.Target() + ":then presence of " + k, fmt.Sprintf("%s: after %v Get(%s) = %s, model present=%v", d.Name, o, k, ErrClass(err), ok)
		}
		if ok {
			if msg := d.checkRec("Get", k, r, mr); msg != "" {
				return d.Name + " " + o.Target() + ":then record " + k, fmt.Sprintf("after %v: %s", o, msg)
			}
		}
	}
	return "", ""
}

// CanonKeyAt is CanonKey with expiry expressed as remaining lifetime at now.
func (m *Model) CanonKeyAt(d *Driver, keys []string, now time.Time) string {
	var b strings.Builder
	for _, k := range keys {
		r, ok := m.Recs[k]
		if !ok {
			b.WriteString("-")
		} else {
			e := "0"
			if r.Exp != nil {
				// bucketed remaining lifetime: sound because the harness only moves time in steps that
				// either expire every "short" record or no "long" one (see C06 main)
				e = "long"
				if r.Exp.Sub(now) <= 5*time.Second {
					e = "short"
				}
				if r.Exp.Sub(now) > 100*365*24*time.Hour {
					e = "far" // beyond anything the clock steps reach
				}
				if r.Exp.Sub(now) <= time.Millisecond {
					e = "sub-ms" // a backend may round such a life-time: keep it apart
				}
			}
			fmt.Fprintf(&b, "%s/%s", string(r.Val), e)
			if m.WriterInKey && (m.WriterKeys == nil || m.WriterKeys[k]) {
				b.WriteString("<" + m.Writer[k])
			}
		}
		if _, ok := d.Stale[k]; ok {
			b.WriteString("+s")
		}
		b.WriteString("|")
	}
	return b.String()
}

// ImplDump renders the complete in-process state of the storage behind d (every field it has) with version strings
// replaced by the model's tokens, for use inside a deduplication key: see package deepdump.
func (d *Driver) ImplDump() string {
	s := deepdump.Dump(d.St, deepdump.Options{})
	// version strings are replaced by a constant: every record carries exactly one, the implementation only compares it
	// for equality with what a caller passes in, and which caller-side versions are current / stale is in the model key
	return ulidRe.ReplaceAllString(s, "v")
}

// ImplDumpAt is ImplDump with every time instant replaced by what bucket(instant) returns (searches that move the
// clock bucket remaining life-times, see CanonKeyAt).
func (d *Driver) ImplDumpAt(bucket func(t time.Time) string) string {
	return timeRe.ReplaceAllStringFunc(d.ImplDump(), func(m string) string {
		n, _ := strconv.ParseInt(m[1:], 10, 64)
		return "T" + bucket(time.Unix(0, n))
	})
}

var timeRe = regexp.MustCompile(`T-?[0-9]+`)

var ulidRe = regexp.MustCompile(`[0-9A-HJKMNP-TV-Z]{26}`)

// CanonKey is the canonical model state for deduplication.
func (m *Model) CanonKey(d *Driver, keys []string) string {
	var b strings.Builder
	for _, k := range keys {
		r, ok := m.Recs[k]
		if !ok {
			b.WriteString("-")
		} else {
			v := "n"
			if r.Val != nil {
				v = "s" + string(r.Val)
			}
			if len(r.Val) == 0 {
				v = "e" // nil and empty are not separated by the contract
			}
			e := "0"
			if r.Exp != nil {
				e = fmt.Sprint(r.Exp.Sub(d.Base))
			}
			fmt.Fprintf(&b, "%s/%s", v, e)
			if m.WriterInKey && (m.WriterKeys == nil || m.WriterKeys[k]) {
				b.WriteString("<" + m.Writer[k])
			}
		}
		if _, ok := d.Stale[k]; ok {
			b.WriteString("+s")
		}
		b.WriteString("|")
	}
	return b.String()
}
