package kvh

import (
	"fmt"
	"sort"
	"strings"

	"github.com/anishathalye/porcupine"
)

// HOp is one per-key event of a concurrent history.
type HOp struct {
	Thread int
	Kind   string // create get put cas delete  (putmany/getmany are split into per-key put/get events)
	Key    string
	Val    string // value written (unique per write)
	ExpVer string // cas: expected version
	OutVal string
	OutVer string
	Err    string // error class
	Call   int64
	Ret    int64
	Multi  string // "putmany"/"getmany" if the event is one leg of a multi-key call
	Waiter int    // wait / cancel: waiter id (bit in the cancelled set)
	done   bool
}

func (o HOp) String() string {
	in := o.Kind + "(" + o.Key
	if o.Val != "" {
		in += "," + o.Val
	}
	if o.Kind == "cas" {
		in += ",ver=" + o.ExpVer
	}
	in += ")"
	if o.Multi != "" {
		in = o.Multi + ":" + in
	}
	return fmt.Sprintf("t%d %s -> val=%q ver=%s err=%s [%d,%d]", o.Thread, in, o.OutVal, o.OutVer, o.Err, o.Call, o.Ret)
}

// History records invocations and responses in execution order.
type History struct {
	Ops  []HOp
	tick int64
}

func (h *History) Begin(o HOp) int {
	h.tick++
	o.Call = h.tick
	h.Ops = append(h.Ops, o)
	return len(h.Ops) - 1
}

func (h *History) End(i int, outVal, outVer, err string) {
	h.tick++
	o := &h.Ops[i]
	o.OutVal, o.OutVer, o.Err, o.Ret, o.done = outVal, outVer, err, h.tick, true
}

// Drop leaves operation i out of the judged history (a call that was refused before it could take effect; if it did
// take effect after all, its value shows up as a phantom).
func (h *History) Drop(i int) { h.Ops[i].done = false }

// EndUnknownVersion completes write i as successful now, with a version nobody was told (its reply was lost).
func (h *History) EndUnknownVersion(i int) {
	h.tick++
	o := &h.Ops[i]
	o.Err, o.Ret, o.done, o.Multi = "nil", h.tick, true, "lost-reply"
}

// Tick returns a fresh timestamp (for multi-key calls whose legs share one interval).
func (h *History) Tick() int64 { h.tick++; return h.tick }

// AddComplete appends an already finished event.
func (h *History) AddComplete(o HOp) { o.done = true; h.Ops = append(h.Ops, o) }

type kstate struct {
	present   bool
	w         int   // id of the write that produced the current record (-1 none)
	cancelled uint8 // waiters whose context has been cancelled
}

// Check judges the history: documented outcomes only, version <-> write
// bijection (freshness), and per-key linearizability (porcupine).
// Returns signature and detail of the first problem, or "".
func (h *History) Check() (sig, detail string) {
	var ops []HOp
	for _, o := range h.Ops {
		if o.done {
			ops = append(ops, o)
		}
	}
	// 1. documented outcomes
	for _, o := range ops {
		okErr := map[string][]string{
			"create": {"nil", "ErrExist"}, "get": {"nil", "ErrNotExist"}, "put": {"nil"},
			"cas": {"nil", "ErrConflict", "ErrNotExist"}, "delete": {"nil", "ErrNotExist"},
			"wait": {"nil", "ErrNotExist", "Canceled"}, "cancel": {"nil"},
		}[o.Kind]
		found := false
		for _, e := range okErr {
			if e == o.Err {
				found = true
			}
		}
		if !found {
			return "undocumented-outcome " + o.Kind, fmt.Sprintf("%v: outcome %s is not one of the documented outcomes %v", o, o.Err, okErr)
		}
	}
	// 2. writes, values and versions
	writesOfVal := map[string][]int{} // values are unique per write except where a script deliberately re-writes a stored value
	getWrite := map[int]int{}
	verOfWrite := map[int]string{}
	for i, o := range ops {
		if o.Err == "nil" && (o.Kind == "create" || o.Kind == "put" || o.Kind == "cas") {
			writesOfVal[o.Val] = append(writesOfVal[o.Val], i)
			if o.OutVer != "" {
				verOfWrite[i] = o.OutVer
			} else if o.Multi == "" {
				return "empty-version " + o.Kind, fmt.Sprintf("%v: a successful write returned an empty version", o)
			}
		}
	}
	for gi, o := range ops {
		if o.Kind == "get" && o.Err == "nil" {
			cands := writesOfVal[o.OutVal]
			if len(cands) == 0 {
				return "phantom-value", fmt.Sprintf("%v: returned a value that no successful write stored", o)
			}
			w := cands[len(cands)-1]
			if len(cands) > 1 {
				// several writes stored this value: the version tells them apart
				w = -1
				for _, c := range cands {
					if v, known := verOfWrite[c]; known && v == o.OutVer {
						w = c
					}
				}
				for _, c := range cands {
					if _, known := verOfWrite[c]; !known && w < 0 {
						w = c
					}
				}
				if w < 0 {
					return "version-value-mismatch", fmt.Sprintf("%v: the value was stored by %d writes, none of them produced version %s", o, len(cands), o.OutVer)
				}
			}
			getWrite[gi] = w
			if v, known := verOfWrite[w]; known && v != o.OutVer {
				return "version-value-mismatch", fmt.Sprintf("%v: value written by %v was returned with version %s, that write produced version %s", o, ops[w], o.OutVer, v)
			}
			verOfWrite[w] = o.OutVer
		}
	}
	writeOfVer := map[string]int{}
	var ws []int
	for w := range verOfWrite {
		ws = append(ws, w)
	}
	sort.Ints(ws)
	for _, w := range ws {
		v := verOfWrite[w]
		if w2, dup := writeOfVer[v]; dup {
			return "version-not-fresh", fmt.Sprintf("version %s was handed out for two different writes: %v and %v", v, ops[w2], ops[w])
		}
		writeOfVer[v] = w
	}
	// 3. per-key linearizability
	byKey := map[string][]porcupine.Operation{}
	for i, o := range ops {
		byKey[o.Key] = append(byKey[o.Key], porcupine.Operation{ClientId: o.Thread, Input: i, Call: o.Call, Output: i, Return: o.Ret})
	}
	model := porcupine.Model{
		Init: func() interface{} { return kstate{false, -1, 0} },
		Step: func(state, input, output interface{}) (bool, interface{}) {
			s := state.(kstate)
			i := input.(int)
			o := ops[i]
			switch o.Kind {
			case "create":
				if o.Err == "nil" {
					return !s.present, kstate{true, i, s.cancelled}
				}
				if !s.present {
					return false, s
				}
				if w, known := writeOfVer[o.OutVer]; known && o.OutVer != "" && w != s.w {
					return false, s // ErrExist must report the version stored at that moment
				}
				return true, s
			case "get":
				if o.Err != "nil" {
					return !s.present, s
				}
				return s.present && getWrite[i] == s.w, s
			case "put":
				return true, kstate{true, i, s.cancelled}
			case "cas":
				w, known := writeOfVer[o.ExpVer]
				switch o.Err {
				case "nil":
					return s.present && known && w == s.w, kstate{true, i, s.cancelled}
				case "ErrConflict":
					if !s.present {
						return false, s
					}
					if known {
						return w != s.w, s
					}
					// expected version belongs to no observed write: it can only be the never-observed version of the current write
					return true, s
				default: // ErrNotExist
					return !s.present, s
				}
			case "cancel":
				s.cancelled |= 1 << uint(o.Waiter)
				return true, s
			case "wait":
				switch o.Err {
				case "nil":
					// the key exists with a version different from the given one
					w, known := writeOfVer[o.ExpVer]
					return s.present && !(known && w == s.w), s
				case "ErrNotExist":
					return !s.present, s
				default:
					return s.cancelled&(1<<uint(o.Waiter)) != 0, s
				}
			case "delete":
				if o.Err == "nil" {
					return s.present, kstate{false, -1, s.cancelled}
				}
				return !s.present, s
			}
			return false, s
		},
	}
	var keys []string
	for k := range byKey {
		keys = append(keys, k)
	}
	sort.Strings(keys)
	for _, k := range keys {
		if !porcupine.CheckOperations(model, byKey[k]) {
			var ls []string
			kinds := map[string]bool{}
			for _, po := range byKey[k] {
				o := ops[po.Input.(int)]
				ls = append(ls, "  "+o.String())
				if o.Thread < 90 {
					kinds[o.Kind] = true
				}
			}
			var ks []string
			for kd := range kinds {
				ks = append(ks, kd)
			}
			sort.Strings(ks)
			return "not-linearizable " + strings.Join(ks, "+"), fmt.Sprintf("the history of key %q has no sequential explanation:\n%s", k, strings.Join(ls, "\n"))
		}
	}
	return "", ""
}
