// Package bfs is Engine Q: explicit-state breadth-first search in which the
// transition function is the real object. A state is identified by the
// shortest operation list reaching it; successors are computed by replaying
// that list on a fresh instance plus one more operation.
package bfs

import (
	"fmt"
	"runtime"
	"sync"
	"time"
)

// Violation found on the last step of a path.
type Violation struct {
	Sig    string
	Detail string
}

// Spec describes one search. O is the operation type.
type Spec[O any] struct {
	// Run builds a fresh implementation + model, replays path (checking every
	// step against the model) and returns the canonical key of the state
	// reached, the operations enabled there, and a violation if the LAST step
	// (or the state reached) breaks the oracle. Must be safe for concurrent calls.
	Run       func(path []O) (key string, next []O, v *Violation)
	Workers   int
	MaxDepth  int // 0: until fixpoint
	MaxStates int // 0: unlimited
	Deadline  time.Time
	Serial    bool // run transitions on one goroutine (SUT with package-global state)
}

// Found is a violation with the path that produced it.
type Found[O any] struct {
	V    *Violation
	Path []O
}

// Stats of a finished search.
type Stats struct {
	States      int
	Transitions int64
	Depth       int
	Fixpoint    bool
	Capped      string
	PerDepth    []int
}

type item[O any] struct {
	path []O
	next []O
}

// Explore runs the search; violating states are reported (first per signature) and not expanded.
func Explore[O any](sp Spec[O]) (Stats, []Found[O]) {
	var st Stats
	seen := map[string]struct{}{}
	var found []Found[O]
	sigSeen := map[string]bool{}
	k0, n0, v0 := sp.Run(nil)
	st.Transitions++
	if v0 != nil {
		return st, []Found[O]{{v0, nil}}
	}
	seen[k0] = struct{}{}
	frontier := []item[O]{{nil, n0}}
	st.PerDepth = append(st.PerDepth, 1)
	workers := sp.Workers
	if workers <= 0 {
		workers = runtime.NumCPU()
	}
	if sp.Serial {
		workers = 1
	}
	type res struct {
		path []O
		key  string
		next []O
		v    *Violation
	}
	for depth := 1; len(frontier) > 0; depth++ {
		if sp.MaxDepth > 0 && depth > sp.MaxDepth {
			st.Capped = fmt.Sprintf("depth bound %d reached with %d frontier states", sp.MaxDepth, len(frontier))
			break
		}
		if !sp.Deadline.IsZero() && time.Now().After(sp.Deadline) {
			st.Capped = fmt.Sprintf("deadline reached at depth %d with %d frontier states", depth-1, len(frontier))
			break
		}
		// expand the frontier in parallel
		type job struct {
			it item[O]
			op O
		}
		jobs := make(chan job, 1024)
		out := make(chan res, 1024)
		var wg sync.WaitGroup
		for w := 0; w < workers; w++ {
			wg.Add(1)
			go func() {
				defer wg.Done()
				for j := range jobs {
					p := make([]O, len(j.it.path)+1)
					copy(p, j.it.path)
					p[len(p)-1] = j.op
					k, n, v := sp.Run(p)
					out <- res{p, k, n, v}
				}
			}()
		}
		go func() {
			for _, it := range frontier {
				for _, op := range it.next {
					jobs <- job{it, op}
				}
			}
			close(jobs)
			wg.Wait()
			close(out)
		}()
		var nf []item[O]
		for r := range out {
			st.Transitions++
			if r.v != nil {
				if !sigSeen[r.v.Sig] {
					sigSeen[r.v.Sig] = true
					found = append(found, Found[O]{r.v, r.path})
				}
				continue
			}
			if _, ok := seen[r.key]; ok {
				continue
			}
			seen[r.key] = struct{}{}
			nf = append(nf, item[O]{r.path, r.next})
		}
		st.Depth = depth
		if len(nf) > 0 {
			st.PerDepth = append(st.PerDepth, len(nf))
		}
		frontier = nf
		if sp.MaxStates > 0 && len(seen) >= sp.MaxStates {
			st.Capped = fmt.Sprintf("state cap %d reached at depth %d", sp.MaxStates, depth)
			break
		}
	}
	st.States = len(seen)
	st.Fixpoint = st.Capped == "" && len(frontier) == 0
	return st, found
}
