// Package tmh is the shared harness for the timer properties (C12, C13): it
// runs a script of Call / Cancel / sleep events against the real timeout
// package under the controlled scheduler and records, on the virtual clock,
// when every callback started and when every Cancel returned.
package tmh

import (
	"fmt"
	"strings"
	"time"

	"github.com/acquirecloud/golibs/timeout"
	"github.com/acquirecloud/golibs/zverif/vsched"
)

// Ev is one event of a caller script.
type Ev struct {
	K string        // call | cancel | sleep | sleepfire (sleep until future F is due, aligned with the dispatcher's timer) | idle (wait for quiescence)
	F int           // future index (call: index assigned; cancel/sleepfire: target)
	D time.Duration // call: delay; sleep: duration; sleepfire: offset added to the fire time
	B time.Duration // call: the callback stays busy for this long (virtual)
}

func (e Ev) String() string {
	switch e.K {
	case "call":
		if e.B > 0 {
			return fmt.Sprintf("call#%d(%v,busy %v)", e.F, e.D, e.B)
		}
		return fmt.Sprintf("call#%d(%v)", e.F, e.D)
	case "cancel":
		return fmt.Sprintf("cancel#%d", e.F)
	case "sleepfire":
		return fmt.Sprintf("sleep-until-due#%d%+v", e.F, e.D)
	case "idle":
		return "idle"
	case "sleepalign":
		return fmt.Sprintf("sleep-aligned(%v)", e.D)
	}
	return fmt.Sprintf("sleep(%v)", e.D)
}

// Script is a closed scenario: one event list per caller thread.
type Script struct {
	Threads [][]Ev
	Pool    int
	Idle    time.Duration
	N       int // number of futures
	// Restart: after the final quiescence one more future (index N-1, delay RestartDelay) is scheduled
	Restart      bool
	RestartDelay time.Duration
	// MaxLate > 0: the judge also bounds how late an uncancelled future may start (scripts whose callbacks return at once,
	// explored without clock deviations)
	MaxLate time.Duration
}

func (s Script) String() string {
	var ts []string
	for _, t := range s.Threads {
		var es []string
		for _, e := range t {
			es = append(es, e.String())
		}
		if len(es) > 40 {
			es = append(append(append([]string{}, es[:6]...), fmt.Sprintf("... (%d events in all) ...", len(es))), es[len(es)-6:]...)
		}
		ts = append(ts, strings.Join(es, " "))
	}
	return fmt.Sprintf("pool=%d idle=%v %s", s.Pool, s.Idle, strings.Join(ts, " || "))
}

// FObs is what was observed for one future.
type FObs struct {
	Delay      time.Duration
	CallAt     time.Duration   // virtual time just before Call was invoked
	CallRet    time.Duration   // virtual time when Call returned
	Starts     []time.Duration // virtual times at which the callback started
	CancelRets []time.Duration // virtual times at which a Cancel of this future returned
	CancelInv  []time.Duration // virtual times at which a Cancel of this future was invoked
	Called     bool
}

// Obs is what one execution observed.
type Obs struct {
	F            []FObs
	HeapOKAlways bool
	HeapBad      string
	EndWatchers  int
	EndHeap      int
	EndAlive     []string // threads still alive at the final quiescence
	MidWatchers  []int    // watchers at every "idle" event
	Done         bool
	// first quiescence (before the restart call), when Restart is set
	Q1Watchers, Q1Heap int
	Q1Alive            []string
}

// Build returns the scenario function.
func (sc Script) Build(obs *Obs) func() {
	return func() {
		*obs = Obs{F: make([]FObs, sc.N), HeapOKAlways: true}
		timeout.VerifReset(sc.Pool, sc.Idle)
		futs := make([]timeout.Future, sc.N)
		now := func() time.Duration { return vsched.NowPeek() }
		heapCheck := func(where string) {
			if _, _, ok := timeout.VerifState(); !ok && obs.HeapOKAlways {
				obs.HeapOKAlways = false
				obs.HeapBad = where
			}
		}
		done := make([]bool, len(sc.Threads))
		for t, evs := range sc.Threads {
			t, evs := t, evs
			vsched.GoNamed(fmt.Sprintf("caller%d", t), func() {
				defer func() { done[t] = true }()
				for _, e := range evs {
					switch e.K {
					case "call":
						i, busy := e.F, e.B
						o := &obs.F[i]
						o.Delay, o.Called = e.D, true
						o.CallAt = now()
						futs[i] = timeout.Call(func() {
							o.Starts = append(o.Starts, now())
							vsched.Note("start#%d at +%v", i, now())
							if busy > 0 {
								vsched.Sleep(busy)
							}
						}, e.D)
						o.CallRet = now()
						vsched.Note("call#%d(%v) at +%v", i, e.D, o.CallAt)
					case "cancel":
						if futs[e.F] == nil {
							// the call has not happened yet (other thread): wait for it
							f := e.F
							vsched.WaitFor("called", func() bool { return futs[f] != nil })
						}
						o := &obs.F[e.F]
						o.CancelInv = append(o.CancelInv, now())
						futs[e.F].Cancel()
						o.CancelRets = append(o.CancelRets, now())
						vsched.Note("cancel#%d returned at +%v", e.F, now())
					case "sleep":
						vsched.Sleep(e.D)
					case "sleepfire":
						f := e.F
						if futs[f] == nil {
							vsched.WaitFor("called", func() bool { return futs[f] != nil })
						}
						due := obs.F[f].CallAt + obs.F[f].Delay + e.D
						d := due - now()
						if d < 0 {
							d = 0
						}
						vsched.SleepAlign(d, 10*time.Microsecond)
					case "sleepalign":
						// sleep D, but wake up together with a pending timer that is due within B of that instant
						vsched.SleepAlign(e.D, e.B)
					case "idle":
						vsched.AwaitIdle()
						w, _, _ := timeout.VerifState()
						obs.MidWatchers = append(obs.MidWatchers, w)
					}
					heapCheck(e.String())
				}
			})
		}
		vsched.WaitFor("callers", func() bool {
			for _, d := range done {
				if !d {
					return false
				}
			}
			return true
		})
		vsched.AwaitIdle()
		if sc.Restart {
			obs.Q1Watchers, obs.Q1Heap, _ = timeout.VerifState()
			obs.Q1Alive = vsched.ThreadsAlive()
			i := sc.N - 1
			o := &obs.F[i]
			o.Delay, o.Called = sc.RestartDelay, true
			o.CallAt = now()
			futs[i] = timeout.Call(func() {
				o.Starts = append(o.Starts, now())
				vsched.Note("start#%d (restart) at +%v", i, now())
			}, sc.RestartDelay)
			o.CallRet = now()
			vsched.AwaitIdle()
		}
		w, hl, ok := timeout.VerifState()
		obs.EndWatchers, obs.EndHeap = w, hl
		if !ok && obs.HeapOKAlways {
			obs.HeapOKAlways = false
			obs.HeapBad = "final quiescence"
		}
		obs.EndAlive = vsched.ThreadsAlive()
		obs.Done = true
	}
}
