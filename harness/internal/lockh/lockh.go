// Package lockh holds the shared scenario builder for the distributed-lock
// properties (C01, C04, C05): topologies, worker programs, the storage gate
// with fault injection, and the monitors.
package lockh

import (
	"context"
	"errors"
	"fmt"
	"sort"
	"strings"
	"time"

	"github.com/acquirecloud/golibs/container/iterable"
	gerrors "github.com/acquirecloud/golibs/errors"
	"github.com/acquirecloud/golibs/kvs"
	dist "github.com/acquirecloud/golibs/kvs/distlock"
	"github.com/acquirecloud/golibs/kvs/inmem"
	gsync "github.com/acquirecloud/golibs/sync"
	"github.com/acquirecloud/golibs/timeout"
	"github.com/acquirecloud/golibs/zverif/vsched"
	"verifh/internal/kvh"
)

var ErrInjected = errors.New("injected storage failure")

// Gate wraps the shared storage for one provider: every call is an
// environment scheduling point and (if allowed) a fault choice.
type Gate struct {
	Inner           kvs.Storage
	Name            string
	Faults          bool            // fault choices enabled on acquire/release-path calls
	Dead            *bool           // when *Dead, every call vanishes (the process died)
	RenewFaults     bool            // fault choices on CasByVersion (renewal path)
	RequestLostOnly bool            // fault choices are "request lost" only (no "reply lost")
	lastFaulted     map[string]bool // RequestLostOnly: the operation whose previous call was lost (its next call gets through)
	ReplyPoint      bool            // a scheduling point between the storage's effect and the caller seeing the reply (the reply is "in transit")
	CasDelay        time.Duration   // the storage is slow on CasByVersion: this much virtual time passes ...
	CasDelayReply   bool            // ... before the request is processed (false) or between its effect and the reply (true)
	HonourCtx       bool            // refuse a call whose context has ended, like a networked storage does (kvs/inmem ignores contexts)
	Calls           *[]string
	OnCall          func(g *Gate, op string)
	// Injected lists the faults injected so far ("Cas:reply-lost", ...)
	Injected []string
	// OnResult is told the outcome of every call that reached the storage
	OnResult func(g *Gate, op string, err error)
}

func (g *Gate) pre(op string, faultable bool) (lostReq, lostRep bool) {
	vsched.Point(vsched.KEnv, g.Name+"."+op, nil)
	if g.OnCall != nil {
		g.OnCall(g, op)
	}
	if g.Dead != nil && *g.Dead {
		return true, false
	}
	if faultable && g.RequestLostOnly && g.lastFaulted[op] {
		// spaced faults: the call right after a lost one gets through (the storage does answer, just not every time)
		g.lastFaulted[op] = false
		faultable = false
	}
	if faultable {
		kinds := 3
		if g.RequestLostOnly {
			kinds = 2
		}
		switch vsched.Choose("fault:"+g.Name+"."+op, kinds, false) {
		case 1:
			vsched.Note("%s.%s request lost", g.Name, op)
			g.Injected = append(g.Injected, op+":request-lost")
			if g.lastFaulted == nil {
				g.lastFaulted = map[string]bool{}
			}
			g.lastFaulted[op] = true
			return true, false
		case 2:
			vsched.Note("%s.%s reply lost", g.Name, op)
			g.Injected = append(g.Injected, op+":reply-lost")
			return false, true
		}
	}
	return false, false
}

func (g *Gate) log(format string, a ...any) {
	if g.Calls != nil {
		*g.Calls = append(*g.Calls, g.Name+"."+fmt.Sprintf(format, a...))
	}
}

func (g *Gate) Create(ctx context.Context, r kvs.Record) (string, error) {
	lq, lp := g.pre("Create", g.Faults)
	if lq {
		g.log("Create lost")
		return "", ErrInjected
	}
	if g.HonourCtx && ctx.Err() != nil {
		g.log("Create refused: %v", ctx.Err())
		return "", ctx.Err()
	}
	v, err := g.Inner.Create(ctx, r)
	g.log("Create -> %v", err)
	if g.ReplyPoint {
		vsched.Point(vsched.KEnv, g.Name+".Create reply", nil)
	}
	if lp {
		return "", ErrInjected
	}
	return v, err
}

func (g *Gate) Get(ctx context.Context, key string) (kvs.Record, error) {
	// not called by the locker as it stands; faultable like every other acquire/release-path call so that a change
	// which starts to read the record meets a storage that can fail there too (seed C04-L)
	lq, lp := g.pre("Get", g.Faults)
	if lq || lp {
		g.log("Get lost")
		return kvs.Record{}, ErrInjected
	}
	if g.HonourCtx && ctx.Err() != nil {
		return kvs.Record{}, ctx.Err()
	}
	return g.Inner.Get(ctx, key)
}

func (g *Gate) GetMany(ctx context.Context, keys ...string) ([]*kvs.Record, error) {
	lq, lp := g.pre("GetMany", g.Faults)
	if lq || lp {
		g.log("GetMany lost")
		return nil, ErrInjected
	}
	if g.HonourCtx && ctx.Err() != nil {
		return nil, ctx.Err()
	}
	return g.Inner.GetMany(ctx, keys...)
}

func (g *Gate) Put(ctx context.Context, r kvs.Record) (kvs.Record, error) {
	lq, lp := g.pre("Put", g.Faults)
	if lq {
		g.log("Put lost")
		return kvs.Record{}, ErrInjected
	}
	if g.HonourCtx && ctx.Err() != nil {
		return kvs.Record{}, ctx.Err()
	}
	res, err := g.Inner.Put(ctx, r)
	g.log("Put -> %v", err)
	if lp {
		return kvs.Record{}, ErrInjected
	}
	return res, err
}

func (g *Gate) PutMany(ctx context.Context, rs []kvs.Record) error {
	lq, lp := g.pre("PutMany", g.Faults)
	if lq {
		return ErrInjected
	}
	if g.HonourCtx && ctx.Err() != nil {
		return ctx.Err()
	}
	err := g.Inner.PutMany(ctx, rs)
	if lp {
		return ErrInjected
	}
	return err
}

func (g *Gate) CasByVersion(ctx context.Context, r kvs.Record) (kvs.Record, error) {
	lq, lp := g.pre("Cas", g.RenewFaults)
	if lq {
		g.log("Cas lost")
		return kvs.Record{}, ErrInjected
	}
	if g.HonourCtx && ctx.Err() != nil {
		g.log("Cas refused: %v", ctx.Err())
		if g.OnResult != nil {
			g.OnResult(g, "Cas", ctx.Err())
		}
		return kvs.Record{}, ctx.Err()
	}
	if g.CasDelay > 0 && !g.CasDelayReply {
		vsched.Sleep(g.CasDelay)
		if g.HonourCtx && ctx.Err() != nil {
			g.log("Cas timed out on the way: %v", ctx.Err())
			return kvs.Record{}, ctx.Err()
		}
	}
	res, err := g.Inner.CasByVersion(ctx, r)
	g.log("Cas -> %v", err)
	if g.CasDelay > 0 && g.CasDelayReply {
		vsched.Sleep(g.CasDelay)
		if g.HonourCtx && ctx.Err() != nil {
			g.log("Cas reply came too late for the caller: %v", ctx.Err())
			if g.OnResult != nil {
				g.OnResult(g, "Cas", ctx.Err())
			}
			return kvs.Record{}, ctx.Err()
		}
	}
	if g.OnResult != nil {
		g.OnResult(g, "Cas", err)
	}
	if lp {
		return kvs.Record{}, ErrInjected
	}
	return res, err
}

func (g *Gate) Delete(ctx context.Context, key string) error {
	lq, lp := g.pre("Delete", g.Faults)
	if lq {
		g.log("Delete lost")
		return ErrInjected
	}
	if g.HonourCtx && ctx.Err() != nil {
		g.log("Delete refused: %v", ctx.Err())
		return ctx.Err()
	}
	err := g.Inner.Delete(ctx, key)
	g.log("Delete -> %v", err)
	if g.ReplyPoint {
		vsched.Point(vsched.KEnv, g.Name+".Delete reply", nil)
	}
	if lp {
		return ErrInjected
	}
	return err
}

func (g *Gate) WaitForVersionChange(ctx context.Context, key, ver string) error {
	lq, lp := g.pre("Wait", g.Faults)
	if lq {
		return ErrInjected
	}
	err := g.Inner.WaitForVersionChange(ctx, key, ver)
	if lp {
		return ErrInjected
	}
	return err
}

func (g *Gate) ListKeys(ctx context.Context, p string) (iterable.Iterator[string], error) {
	return g.Inner.ListKeys(ctx, p)
}

// ---------------------------------------------------------------------------

// Acq is one acquisition attempt of a worker program.
type Acq struct {
	Mode byte          // 'L' Lock, 'T' TryLock, 'Y' TryLock with a cancelled ctx, 'C' LockWithCtx (+canceller pseudo thread), 'X' LockWithCtx with already cancelled ctx
	Hold time.Duration // virtual hold time inside the critical section (0: none)
}

// Prog is a worker program: a sequence of acquisitions, each followed by Unlock when it succeeded.
type Prog []Acq

func (p Prog) String() string {
	var b strings.Builder
	for _, a := range p {
		b.WriteByte(a.Mode)
		if a.Hold > 0 {
			b.WriteByte('h')
		}
	}
	return b.String()
}

// Topology assigns workers to lockers and lockers to providers.
type Topology struct {
	Name      string
	Providers int
	// LockerOf[w] = locker index of worker w; ProviderOf[l] = provider of locker l
	LockerOf   []int
	ProviderOf []int
}

var Topologies = map[string]Topology{
	"a": {Name: "a:2 lockers/1 provider", Providers: 1, LockerOf: []int{0, 1}, ProviderOf: []int{0, 0}},
	"b": {Name: "b:2 providers", Providers: 2, LockerOf: []int{0, 1}, ProviderOf: []int{0, 1}},
	"c": {Name: "c:2 goroutines/1 locker", Providers: 1, LockerOf: []int{0, 0}, ProviderOf: []int{0}},
	"d": {Name: "d:shared locker + own locker", Providers: 2, LockerOf: []int{0, 0, 1}, ProviderOf: []int{0, 1}},
	"e": {Name: "e:3 providers", Providers: 3, LockerOf: []int{0, 1, 2}, ProviderOf: []int{0, 1, 2}},
}

// Scenario is one closed system to explore.
type Scenario struct {
	Topo     Topology
	Progs    []Prog
	Faults   bool
	Shutdown int // -1: none; else index of the provider that is shut down by a pseudo thread
	Lease    time.Duration
	Residue  bool // C04: run residue probes at the end
	// ReplyPoint: see Gate.ReplyPoint
	ReplyPoint bool
	// HonourCtx: the storage refuses calls whose context has ended (kvs/inmem ignores contexts, networked storages do not)
	HonourCtx bool
	// Storage: "" / "inmem" (default) or "redis" (kvs/redis against an in-process miniredis; every Redis command
	// of every provider's client is a scheduling point, TTLs follow the virtual clock)
	Storage string
}

var redisBE *kvh.RedisBackend

func (sc *Scenario) String() string {
	ps := make([]string, len(sc.Progs))
	for i, p := range sc.Progs {
		ps[i] = p.String()
	}
	s := fmt.Sprintf("topo=%s progs=%s faults=%v", sc.Topo.Name[:1], strings.Join(ps, "|"), sc.Faults)
	if sc.HonourCtx {
		s = "ctx-aware " + s
	}
	if sc.Storage == "redis" {
		s = "redis " + s
	}
	if sc.Shutdown >= 0 {
		s += fmt.Sprintf(" shutdown=p%d", sc.Shutdown)
	}
	return s
}

// Obs is what one execution of a scenario observed.
type Obs struct {
	MaxHolders   int
	DoubleHold   string // description of the first double hold
	WorkerDone   []bool
	Acquired     []int    // successful acquisitions per worker
	Results      []string // per worker: result string of each attempt
	BadReturn    string   // a cancelled attempt returned something else than ctx.Err(), etc.
	Residue      string   // C04 residue description ("" = clean)
	AfterShut    string   // acquisition by an attempt invoked after Shutdown returned
	ShutdownDone bool
	Panics       []string
	StorageCalls []string
}

// Build returns the scenario function for the explorer and the observation it fills.
func (sc *Scenario) Build(obs *Obs) func() {
	return func() {
		*obs = Obs{}
		n := len(sc.Progs)
		obs.WorkerDone = make([]bool, n)
		obs.Acquired = make([]int, n)
		obs.Results = make([]string, n)
		lease := sc.Lease
		if lease == 0 {
			lease = 10 * time.Second
		}
		timeout.VerifReset(10, 30*time.Second)
		dist.VerifSetLease(lease)
		var st kvs.Storage
		inner := func() kvs.Storage { return st }
		if sc.Storage == "redis" {
			if redisBE == nil {
				redisBE = kvh.NewRedis(true)
			}
			vsched.SetClockForward(redisBE.FastForward)
			st = redisBE.Fresh()
			inner = func() kvs.Storage { return redisBE.NewClient() } // one client (connection pool) per provider, like one per process
		} else {
			st = inmem.New()
		}
		provs := make([]dist.LockProvider, sc.Topo.Providers)
		gates := make([]*Gate, sc.Topo.Providers)
		for i := range provs {
			gates[i] = &Gate{Inner: inner(), Name: fmt.Sprintf("p%d", i), Faults: sc.Faults, HonourCtx: sc.HonourCtx, ReplyPoint: sc.ReplyPoint, Calls: &obs.StorageCalls}
			provs[i] = dist.NewKvsLockProvider(gates[i], "/locks/")
		}
		lockers := make([]gsync.Locker, len(sc.Topo.ProviderOf))
		for i, p := range sc.Topo.ProviderOf {
			lockers[i] = provs[p].NewLocker("L")
		}
		holders := 0
		shutAt := -1 // step count at which Shutdown returned
		if sc.Shutdown >= 0 {
			p := provs[sc.Shutdown]
			vsched.Pseudo("shutdown", nil, func() {
				p.Shutdown()
				obs.ShutdownDone = true
				shutAt = vsched.StepCount()
				vsched.Note("shutdown p%d", sc.Shutdown)
			})
		}
		for w := 0; w < n; w++ {
			w := w
			lk := lockers[sc.Topo.LockerOf[w]]
			prov := sc.Topo.ProviderOf[sc.Topo.LockerOf[w]]
			prog := sc.Progs[w]
			vsched.GoNamed(fmt.Sprintf("w%d", w), func() {
				defer func() { obs.WorkerDone[w] = true }()
				for ai, a := range prog {
					invokedAfterShut := sc.Shutdown == prov && obs.ShutdownDone
					ok, res := attempt(lk, a, w, ai)
					obs.Results[w] += res + ";"
					vsched.Note("w%d %c -> %s", w, a.Mode, res)
					if !ok {
						continue
					}
					if invokedAfterShut && obs.AfterShut == "" {
						obs.AfterShut = fmt.Sprintf("w%d attempt %d (%c) invoked after Shutdown returned (step %d) acquired", w, ai, a.Mode, shutAt)
					}
					obs.Acquired[w]++
					holders++
					if holders > obs.MaxHolders {
						obs.MaxHolders = holders
					}
					if holders > 1 && obs.DoubleHold == "" {
						obs.DoubleHold = fmt.Sprintf("w%d acquired (attempt %d, %c) while another caller holds", w, ai, a.Mode)
						vsched.Note("DOUBLE HOLD: %s", obs.DoubleHold)
					}
					vsched.Point(vsched.KEnv, "cs", nil)
					if a.Hold > 0 {
						vsched.SleepAlign(a.Hold, time.Microsecond)
					}
					holders--
					lk.Unlock()
					vsched.Note("w%d unlocked", w)
				}
			})
		}
		vsched.WaitFor("workers", func() bool {
			for _, d := range obs.WorkerDone {
				if !d {
					return false
				}
			}
			return true
		})
		if sc.Residue {
			vsched.DropPseudos() // cancellations / shutdown that did not happen so far do not happen during the probes
			if sc.Faults {
				// after injected storage faults a record whose Delete was lost legitimately stays until its lease
				// runs out: stop injecting, let every lease lapse, then probe only what must hold regardless -
				// every locker can acquire again
				for _, g := range gates {
					if g != nil {
						g.Faults = false
					}
				}
				vsched.Sleep(3 * sc.Lease)
			}
			obs.Residue = residue(st, lockers, sc, obs)
		}
	}
}

// attempt runs one acquisition; returns whether the lock is now held and a result string.
func attempt(lk gsync.Locker, a Acq, w, ai int) (held bool, res string) {
	defer func() {
		if r := recover(); r != nil {
			msg := fmt.Sprint(r)
			if a.Mode == 'L' && strings.Contains(msg, "unhandled error situation while locking") {
				// documented behaviour of Lock() on a storage error: did not acquire
				held, res = false, "panic(storage error)"
				return
			}
			panic(r)
		}
	}()
	switch a.Mode {
	case 'L':
		lk.Lock()
		return true, "locked"
	case 'T':
		if lk.TryLock(context.Background()) {
			return true, "true"
		}
		return false, "false"
	case 'Y': // TryLock with an already cancelled context: must fail and leave nothing behind
		ctx, cancel := context.WithCancel(context.Background())
		cancel()
		if lk.TryLock(ctx) {
			return true, "true(cancelled ctx)"
		}
		return false, "false"
	case 'C', 'X':
		ctx, cancel := context.WithCancel(context.Background())
		cancelled := false
		if a.Mode == 'X' {
			cancel()
			cancelled = true
		} else {
			vsched.Pseudo(fmt.Sprintf("cancel-w%d-%d", w, ai), nil, func() {
				cancelled = true
				cancel()
				vsched.Note("cancel w%d", w)
			})
		}
		err := lk.LockWithCtx(ctx)
		if err == nil {
			return true, "nil"
		}
		if !cancelled || !errors.Is(err, context.Canceled) {
			if errors.Is(err, ErrInjected) {
				return false, "err(injected)"
			}
			if gerrors.Is(err, gerrors.ErrClosed) {
				return false, "err(closed)"
			}
			return false, "BAD:" + err.Error()
		}
		return false, "ctx.Err"
	}
	panic("bad mode")
}

func waitersOf(st kvs.Storage) map[string]int {
	defer func() { recover() }() // not the in-memory backend: no waiter table
	return inmem.VerifWaiters(st)
}

// residue checks what is left behind once every worker is done (C04).
func residue(st kvs.Storage, lockers []gsync.Locker, sc *Scenario, obs *Obs) string {
	var probs []string
	faulted := false
	for _, c := range obs.StorageCalls {
		if strings.HasSuffix(c, "lost") {
			faulted = true
		}
	}
	if sc.Faults {
		faulted = true
	}
	if faulted {
		// only the usability probes below
	} else if _, err := st.Get(context.Background(), "/locks/L"); err == nil {
		probs = append(probs, "lock record still present after every holder unlocked")
	} else if !gerrors.Is(err, gerrors.ErrNotExist) {
		probs = append(probs, "Get(lock key): "+err.Error())
	}
	if w := waitersOf(st); len(w) != 0 && !faulted {
		ks := []string{}
		for k, n := range w {
			ks = append(ks, fmt.Sprintf("%s:%d", k, n))
		}
		sort.Strings(ks)
		probs = append(probs, "waiter table not empty: "+strings.Join(ks, ","))
	}
	for i, lk := range lockers {
		shut := sc.Shutdown >= 0 && sc.Topo.ProviderOf[i] == sc.Shutdown && obs.ShutdownDone
		ok := lk.TryLock(context.Background())
		if shut {
			if ok {
				probs = append(probs, fmt.Sprintf("locker %d acquired after Shutdown", i))
				lk.Unlock()
			}
			continue
		}
		if !ok {
			probs = append(probs, fmt.Sprintf("locker %d cannot be re-acquired at quiescence", i))
			continue
		}
		lk.Unlock()
	}
	return strings.Join(probs, "; ")
}
