package lockh

import (
	"context"
	"fmt"
	"strings"
	"time"

	gerrors "github.com/acquirecloud/golibs/errors"
	"github.com/acquirecloud/golibs/kvs"
	dist "github.com/acquirecloud/golibs/kvs/distlock"
	"github.com/acquirecloud/golibs/kvs/inmem"
	"github.com/acquirecloud/golibs/timeout"
	"github.com/acquirecloud/golibs/zverif/vsched"
	"verifh/internal/kvh"
)

// LeaseScenario is one of the three C05 scenario families.
type LeaseScenario struct {
	Kind        string // kept | lapse | diesout
	Lease       time.Duration
	RenewFaults bool    // kept: fault choices on the holder's renewal calls
	Holds       float64 // kept: hold duration in leases
	DiePhase    float64 // lapse: death at (1+DiePhase) renewal periods after acquisition; <0: pseudo thread (any point)
	SameLocker  bool    // diesout: second tenure on the same Locker
	TwoWaiters  bool    // lapse: a first waiter that gives up before the lease lapses, a second one that stays
	Storage     string  // "" (kvs/inmem) or "redis" (kvs/redis over miniredis on the virtual clock, polling waiters)
	SlowCas     string  // kept: "request" / "reply": the holder's storage needs a sixth of a lease for a CasByVersion (and honours contexts)
	ManyFaults  bool    // kept: renewal requests may be lost many times in one tenure (request-lost only, fault budget from the config)
	CtxEnds     bool    // kept: the holder acquires with LockWithCtx and that context is cancelled a fifth of a lease later; the storage honours contexts
}

func (sc *LeaseScenario) String() string {
	s := sc.str()
	if sc.Storage == "redis" {
		s = "redis " + s
	}
	if sc.CtxEnds {
		s += " acquisition-context-ends"
	}
	if sc.ManyFaults {
		s += " request-lost-only"
	}
	if sc.SlowCas != "" {
		s += " slow-cas-" + sc.SlowCas
	}
	return s
}

func (sc *LeaseScenario) str() string {
	switch sc.Kind {
	case "handover":
		return fmt.Sprintf("handover lease=%v first-tenure=%.1f leases", sc.Lease, sc.Holds)
	case "kept":
		return fmt.Sprintf("kept lease=%v hold=%.1f leases renewal-faults=%v", sc.Lease, sc.Holds, sc.RenewFaults)
	case "lapse":
		if sc.DiePhase < 0 {
			return fmt.Sprintf("lapse lease=%v death=any-point", sc.Lease)
		}
		return fmt.Sprintf("lapse lease=%v death-phase=%.2f two-waiters=%v", sc.Lease, sc.DiePhase, sc.TwoWaiters)
	}
	return fmt.Sprintf("diesout lease=%v same-locker=%v renewal-faults=%v", sc.Lease, sc.SameLocker, sc.RenewFaults)
}

// LeaseObs is what one execution observed.
type LeaseObs struct {
	Problem string
	Sig     string
	Notes   []string
	Summary string
}

// faultClass names the decisive injected fault: a lost reply (the renewal took effect but the
// holder does not learn the new version) dominates lost requests.
func faultClass(inj []string) string {
	cls := "no fault"
	for _, f := range inj {
		if strings.HasSuffix(f, ":reply-lost") {
			return f
		}
		cls = f
	}
	return cls
}

func (o *LeaseObs) fail(sig, f string, a ...any) {
	if o.Problem == "" {
		o.Sig = sig
		o.Problem = fmt.Sprintf(f, a...)
		vsched.Note("PROBLEM %s: %s", sig, o.Problem)
	}
}

func (sc *LeaseScenario) Build(obs *LeaseObs) func() {
	return func() {
		*obs = LeaseObs{}
		L := sc.Lease
		idle := 30 * time.Second
		timeout.VerifReset(10, idle)
		dist.VerifSetLease(L)
		var st kvs.Storage = inmem.New()
		inner := func() kvs.Storage { return st }
		slack := time.Duration(0)
		if sc.Storage == "redis" {
			if redisBE == nil {
				redisBE = kvh.NewRedis(true)
			}
			vsched.SetClockForward(redisBE.FastForward)
			st = redisBE.Fresh()
			inner = func() kvs.Storage { return redisBE.NewClient() }
			slack = 70 * time.Millisecond // the Redis waiter polls, at most 64ms apart
		}
		var calls []string
		mk := func(name string) (*Gate, dist.LockProvider) {
			g := &Gate{Inner: inner(), Name: name, Calls: &calls, HonourCtx: sc.CtxEnds}
			return g, dist.NewKvsLockProvider(g, "/locks/")
		}
		gH, pH := mk("holder")
		_, pC := mk("contender")
		_, pP := mk("prober")
		lkH := pH.NewLocker("L")
		lkC := pC.NewLocker("L")
		lkP := pP.NewLocker("L")
		now := func() time.Duration { return vsched.NowPeek() }
		bg := context.Background()
		recordAlive := func(where string) {
			r, err := st.Get(bg, "/locks/L")
			if err != nil {
				obs.fail("kept:record-gone", "%s at +%v: the lock record does not exist although the holder holds the lock (%v)", where, now(), err)
				return
			}
			if r.ExpiresAt == nil || !r.ExpiresAt.After(vsched.Epoch0.Add(now())) {
				obs.fail("kept:record-expired", "%s at +%v: the lock record has expired under a live holder", where, now())
			}
		}
		switch sc.Kind {
		case "kept":
			gH.RenewFaults = sc.RenewFaults
			gH.RequestLostOnly = sc.ManyFaults
			if sc.SlowCas != "" {
				gH.CasDelay, gH.CasDelayReply, gH.HonourCtx = L/6, sc.SlowCas == "reply", true
			}
			holding, unlocked, hdone, cdone, pdone := false, false, false, false, false
			vsched.GoNamed("holder", func() {
				defer func() { hdone = true }()
				if sc.CtxEnds {
					hctx, hcancel := context.WithCancel(bg)
					if err := lkH.LockWithCtx(hctx); err != nil {
						obs.fail("kept:holder-error", "holder's LockWithCtx returned %v", err)
						hcancel()
						return
					}
					holding = true
					vsched.Sleep(L / 5)
					hcancel() // the lock is held; what the acquisition context does from now on is irrelevant to the tenure
					vsched.Note("acquisition context cancelled at +%v", now())
				} else {
					lkH.Lock()
				}
				holding = true
				vsched.Note("holder locked at +%v", now())
				vsched.Sleep(time.Duration(sc.Holds * float64(L)))
				recordAlive("before Unlock")
				holding = false
				lkH.Unlock()
				unlocked = true
				vsched.Note("holder unlocked at +%v", now())
			})
			vsched.GoNamed("contender", func() {
				defer func() { cdone = true }()
				vsched.Sleep(L / 10)
				err := lkC.LockWithCtx(bg)
				if err != nil {
					obs.fail("kept:contender-error", "contender's LockWithCtx returned %v", err)
					return
				}
				vsched.Note("contender acquired at +%v", now())
				if holding {
					after := faultClass(gH.Injected)
					obs.fail("kept:two-holders after "+after, "the contender acquired the lock at +%v while the holder still holds it (lease lapsed under a live holder; injected faults: %s)", now(), after)
				}
				lkC.Unlock()
			})
			vsched.GoNamed("prober", func() {
				defer func() { pdone = true }()
				vsched.Sleep(L / 8)
				for !unlocked && obs.Problem == "" {
					if holding {
						recordAlive("probe")
						if lkP.TryLock(bg) {
							if holding {
								after := faultClass(gH.Injected)
								obs.fail("kept:two-holders after "+after, "a TryLock of another provider succeeded at +%v while the holder holds the lock (injected faults: %s)", now(), after)
							}
							lkP.Unlock()
						}
					}
					vsched.Sleep(L / 4)
				}
			})
			// a goroutine of the holder's own process tries the SAME Locker object now and then: it must be refused
			// and must not disturb the tenure in any way
			ldone := false
			vsched.GoNamed("local-prober", func() {
				defer func() { ldone = true }()
				vsched.Sleep(L / 6)
				for !unlocked && obs.Problem == "" {
					if holding && lkH.TryLock(bg) {
						if holding {
							obs.fail("kept:two-holders local TryLock", "TryLock on the holder's own Locker object succeeded at +%v while the lock is held", now())
						}
						lkH.Unlock()
					}
					vsched.Sleep(L / 3)
				}
			})
			vsched.WaitFor("all", func() bool { return hdone && cdone && pdone && ldone })
			obs.Summary = fmt.Sprintf("renewals=%d", strings.Count(strings.Join(calls, ";"), "holder.Cas -> <nil>"))
		case "handover":
			// a waiter that was blocked for a long time takes over and must itself keep the lease:
			// the record it creates has to be fresh (expiry computed at creation, renewal armed)
			holding := 0 // 1 first holder, 2 second holder
			hdone, cdone, pdone, finished := false, false, false, false
			vsched.GoNamed("holder", func() {
				defer func() { hdone = true }()
				lkH.Lock()
				holding = 1
				vsched.Sleep(time.Duration(sc.Holds * float64(L)))
				holding = 0
				lkH.Unlock()
				vsched.Note("first holder unlocked at +%v", now())
			})
			vsched.GoNamed("contender", func() {
				defer func() { cdone = true }()
				vsched.Sleep(L / 10)
				if err := lkC.LockWithCtx(bg); err != nil {
					obs.fail("handover:contender-error", "contender's LockWithCtx returned %v", err)
					return
				}
				if holding != 0 {
					obs.fail("handover:two-holders", "the waiting contender acquired at +%v while the first holder still holds", now())
				}
				holding = 2
				vsched.Note("contender acquired at +%v after waiting %.1f leases", now(), float64(now())/float64(L))
				vsched.Sleep(2*L + L/2)
				recordAlive("second holder before Unlock")
				holding = 0
				lkC.Unlock()
				finished = true
			})
			vsched.GoNamed("prober", func() {
				defer func() { pdone = true }()
				vsched.Sleep(L / 8)
				for !finished && obs.Problem == "" {
					if holding != 0 {
						h := holding
						recordAlive(fmt.Sprintf("probe during tenure %d", h))
						if lkP.TryLock(bg) {
							if holding != 0 {
								obs.fail("handover:two-holders", "a TryLock of a third provider succeeded at +%v while holder %d holds the lock (its record was not kept alive)", now(), holding)
							}
							lkP.Unlock()
						}
					}
					vsched.Sleep(L / 4)
				}
			})
			vsched.WaitFor("all", func() bool { return hdone && cdone && pdone })
			obs.Summary = "handover"
		case "lapse":
			dead := false
			gH.Dead = &dead
			var deathAt, acquiredAt time.Duration = -1, -1
			cdone, hlocked := false, false
			die := func() {
				dead = true
				deathAt = now()
				vsched.Note("holder died at +%v", deathAt)
			}
			vsched.GoNamed("holder", func() {
				lkH.Lock()
				hlocked = true
				vsched.Note("holder locked at +%v", now())
				if sc.DiePhase >= 0 {
					vsched.SleepAlign(time.Duration((1+sc.DiePhase)*float64(L/2)), time.Microsecond)
					die()
				} else {
					vsched.Pseudo("die", nil, func() {
						if !dead {
							die()
						}
					})
					vsched.Sleep(2*L + L/3) // at the latest the holder dies here
					if !dead {
						die()
					}
				}
				vsched.WaitFor("dead-forever", func() bool { return false })
			})
			vsched.GoNamed("contender", func() {
				defer func() { cdone = true }()
				vsched.WaitFor("holder-locked", func() bool { return hlocked })
				err := lkC.LockWithCtx(bg)
				if err != nil {
					obs.fail("lapse:contender-error", "contender's LockWithCtx returned %v", err)
					return
				}
				acquiredAt = now()
				vsched.Note("contender acquired at +%v", acquiredAt)
				if !dead {
					obs.fail("lapse:two-holders", "the contender acquired at +%v while the holder is alive and holds the lock", acquiredAt)
				}
				lkC.Unlock()
			})
			if sc.TwoWaiters {
				// a first waiter (own provider) that starts before the contender and gives up a quarter lease after the
				// death: the remaining waiter must still notice that the record expired
				_, pW := mk("impatient")
				lkW := pW.NewLocker("L")
				wctx, wcancel := context.WithCancel(bg)
				vsched.GoNamed("impatient", func() {
					vsched.WaitFor("holder-locked", func() bool { return hlocked })
					if err := lkW.LockWithCtx(wctx); err == nil {
						if !dead {
							obs.fail("lapse:two-holders", "the impatient waiter acquired while the holder is alive")
						}
						lkW.Unlock()
					}
				})
				vsched.GoNamed("impatience", func() {
					vsched.WaitFor("death", func() bool { return dead || cdone })
					vsched.Sleep(L / 4)
					wcancel()
				})
			}
			// watchdog: the contender must hold the lock within lease + one renewal period after the death
			vsched.GoNamed("watchdog", func() {
				vsched.WaitFor("death", func() bool { return dead || cdone })
				if cdone {
					return
				}
				vsched.Sleep(L + L/2 + time.Millisecond + slack)
				vsched.AwaitBlocked()
				if !cdone && acquiredAt < 0 {
					obs.fail("lapse:not-acquired", "holder died at +%v; at +%v (death + lease + one renewal period) the waiting contender still does not hold the lock", deathAt, now())
					cdone = true // give up: let the execution end
				}
			})
			vsched.WaitFor("contender", func() bool { return cdone })
			obs.Summary = fmt.Sprintf("acquired-after=%.1f leases", float64(acquiredAt-deathAt)/float64(L))
		case "diesout":
			gH.RenewFaults = sc.RenewFaults
			var unlockedAt time.Duration = -1
			casAfter, casAfterOK, casAttemptsAfter := 0, 0, 0
			gH.OnCall = func(g *Gate, op string) {
				if op == "Cas" && unlockedAt >= 0 {
					casAttemptsAfter++
				}
			}
			gH.OnResult = func(g *Gate, op string, err error) {
				if op == "Cas" && unlockedAt >= 0 {
					casAfter++
					if err == nil {
						casAfterOK++
					} else if !gerrors.Is(err, gerrors.ErrNotExist) && !gerrors.Is(err, gerrors.ErrConflict) && !sc.RenewFaults {
						obs.fail("diesout:cas-error", "a renewal attempt after Unlock returned %v", err)
					}
				}
			}
			done := false
			vsched.GoNamed("holder", func() {
				defer func() { done = true }()
				lkH.Lock()
				vsched.SleepAlign(L/2, time.Microsecond) // wake exactly when the renewal timer fires: Unlock races the renewal
				lkH.Unlock()
				unlockedAt = now()
				vsched.Note("tenure 1 unlocked at +%v", unlockedAt)
				second := lkH
				if !sc.SameLocker {
					second = pH.NewLocker("L")
				}
				second.Lock()
				vsched.Note("tenure 2 locked at +%v", now())
				vsched.Sleep(L / 4)
				second.Unlock()
				vsched.Note("tenure 2 unlocked at +%v", now())
			})
			vsched.WaitFor("holder", func() bool { return done })
			vsched.AwaitIdle()
			if casAttemptsAfter > 1 {
				obs.fail("diesout:renewal-continues", "%d renewal attempts of the finished tenure were made after Unlock returned (at most one already armed attempt is allowed, and it arms nothing)", casAttemptsAfter)
			}
			if casAfter > 1 {
				obs.fail("diesout:renewal-continues", "%d renewal attempts of the finished tenure reached the storage after Unlock returned (at most one already armed attempt is allowed)", casAfter)
			}
			if casAfterOK > 0 {
				obs.fail("diesout:stale-renewal-succeeded", "a renewal attempt of the finished tenure succeeded after Unlock returned (it changed a record it does not own)")
			}
			w, hl, ok := timeout.VerifState()
			if hl != 0 {
				obs.fail("diesout:timer-left", "at quiescence %d timers are still armed", hl)
			}
			if w != 0 {
				obs.fail("diesout:watchers-left", "at quiescence %d timer goroutines are still alive", w)
			}
			if !ok {
				obs.fail("diesout:heap-index", "timer heap indices are inconsistent")
			}
			if _, err := st.Get(bg, "/locks/L"); err == nil {
				obs.fail("diesout:record-left", "the lock record still exists after both tenures were unlocked")
			}
			obs.Summary = fmt.Sprintf("cas-after-unlock=%d", casAfter)
		}
	}
}
