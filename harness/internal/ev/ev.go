// Package ev writes evidence files, matches violations against
// known_findings.jsonl and produces the VIOLATION / KNOWN-FINDING lines.
package ev

import (
	"bufio"
	"encoding/json"
	"flag"
	"fmt"
	"os"
	"path/filepath"
	"sort"
	"strconv"
	"strings"
	"time"
)

// Finding is one line of /verif/known_findings.jsonl.
type Finding struct {
	Property  string `json:"property"`
	Status    string `json:"status"` // "known" | "fixed"
	Signature string `json:"signature"`
	What      string `json:"what"`
	Commit    string `json:"commit,omitempty"`
}

// Run is the bookkeeping of one check invocation.
type Run struct {
	Prop      string
	Tier      string
	Seed      int
	Level     string
	VerifDir  string
	Replay    string
	start     time.Time
	findings  []Finding
	known     map[string]string // signature -> what, printed once
	newViol   []string
	violCount int
	Assume    []string
	shard     string
}

// Parse reads the common flags (-tier, -replay, -shard) and environment.
func Parse(prop, level string) *Run {
	r := &Run{Prop: prop, Level: level, start: time.Now(), known: map[string]string{}}
	tier := flag.String("tier", os.Getenv("VERIF_TIER"), "quick|thorough")
	replay := flag.String("replay", "", "replay file")
	shard := flag.String("shard", "", "internal: i/n worker shard")
	flag.Parse()
	r.Tier = *tier
	if r.Tier != "thorough" {
		r.Tier = "quick"
	}
	r.Replay = *replay
	r.shard = *shard
	r.Seed, _ = strconv.Atoi(os.Getenv("VERIF_SEED"))
	r.VerifDir = os.Getenv("VERIF_DIR")
	if r.VerifDir == "" {
		r.VerifDir = "/verif"
	}
	r.loadFindings()
	return r
}

func (r *Run) Thorough() bool { return r.Tier == "thorough" }

// Shard returns (i, n) for worker processes, (0,1) otherwise.
func (r *Run) Shard() (int, int) {
	if r.shard == "" {
		return 0, 1
	}
	var i, n int
	fmt.Sscanf(r.shard, "%d/%d", &i, &n)
	if n <= 0 {
		return 0, 1
	}
	return i, n
}

func (r *Run) IsWorker() bool { return r.shard != "" }

// loadFindings parses /verif/known_findings.txt. Line formats:
//
//	known: property=<id> signature=<sig> :: <what fails>
//	fixed: property=<id> <commit> signature=<sig> :: <what failed>
//
// "fixed" lines suppress nothing; they are documentation.
func (r *Run) loadFindings() {
	f, err := os.Open(filepath.Join(r.VerifDir, "known_findings.txt"))
	if err != nil {
		return
	}
	defer f.Close()
	sc := bufio.NewScanner(f)
	sc.Buffer(make([]byte, 1<<20), 1<<20)
	for sc.Scan() {
		line := strings.TrimSpace(sc.Text())
		if line == "" || strings.HasPrefix(line, "#") {
			continue
		}
		var fd Finding
		switch {
		case strings.HasPrefix(line, "known:"):
			fd.Status = "known"
			line = strings.TrimSpace(line[len("known:"):])
		case strings.HasPrefix(line, "fixed:"):
			fd.Status = "fixed"
			line = strings.TrimSpace(line[len("fixed:"):])
		default:
			continue
		}
		head, what, _ := strings.Cut(line, " :: ")
		fd.What = what
		if k := strings.Index(head, "signature="); k >= 0 {
			fd.Signature = strings.TrimSpace(head[k+len("signature="):])
			head = head[:k]
		}
		for _, fld := range strings.Fields(head) {
			if strings.HasPrefix(fld, "property=") {
				fd.Property = fld[len("property="):]
			} else {
				fd.Commit = fld
			}
		}
		r.findings = append(r.findings, fd)
	}
}

// IsKnown reports whether sig is listed as a known (unrepaired) finding.
func (r *Run) IsKnown(sig string) (string, bool) {
	for _, f := range r.findings {
		if f.Property == r.Prop && f.Status == "known" && f.Signature == sig {
			return f.What, true
		}
	}
	return "", false
}

// Violation reports a violating case. sig identifies the failing input / call
// site / history class; replay is written to replays/<prop>-<n>.json.
// Returns true if it is a NEW violation (not a listed known finding).
func (r *Run) Violation(sig, detail string, replay any) bool {
	if what, ok := r.IsKnown(sig); ok {
		if _, seen := r.known[sig]; !seen {
			r.known[sig] = what
		}
		return false
	}
	r.violCount++
	for _, s := range r.newViol {
		if s == sig {
			return true
		}
	}
	r.newViol = append(r.newViol, sig)
	if len(r.newViol) > 20 {
		return true
	}
	dir := filepath.Join(r.VerifDir, "replays")
	if d := os.Getenv("VERIF_EVIDENCE_DIR"); d != "" {
		dir = filepath.Join(d, "replays")
	}
	os.MkdirAll(dir, 0o755)
	path := filepath.Join(dir, fmt.Sprintf("%s-%d.json", r.Prop, len(r.newViol)))
	b, _ := json.MarshalIndent(map[string]any{"property": r.Prop, "signature": sig, "detail": detail, "replay": replay, "tier": r.Tier}, "", " ")
	os.WriteFile(path, b, 0o644)
	fmt.Printf("VIOLATION property=%s replay=%s\n", r.Prop, path)
	fmt.Printf("  signature: %s\n  detail: %s\n", sig, firstLines(detail, 40))
	return true
}

func firstLines(s string, n int) string {
	ls := strings.Split(s, "\n")
	if len(ls) > n {
		ls = append(ls[:n], "...")
	}
	return strings.Join(ls, "\n    ")
}

// NewViolations is the number of distinct new violation signatures so far.
func (r *Run) NewViolations() int { return len(r.newViol) }

// KnownSeen lists the signatures of known findings that were reproduced.
func (r *Run) KnownSeen() []string {
	var ks []string
	for k := range r.known {
		ks = append(ks, k)
	}
	sort.Strings(ks)
	return ks
}

// Coverage is the coverage object of the evidence file.
type Coverage map[string]any

// Finish writes the evidence file, prints KNOWN-FINDING lines and exits.
func (r *Run) Finish(cov Coverage) {
	r.raceAudit(cov)
	for _, k := range r.KnownSeen() {
		fmt.Printf("KNOWN-FINDING: property=%s %s [%s]\n", r.Prop, r.known[k], k)
	}
	// fixed entries that did not recur are not mentioned; that is the point.
	cov["known_findings_reproduced"] = r.KnownSeen()
	cov["new_violation_signatures"] = r.newViol
	evd := map[string]any{
		"property_id": r.Prop,
		"tier":        r.Tier,
		"seed":        r.Seed,
		"level":       r.Level,
		"coverage":    cov,
		"assumptions": r.Assume,
		"wall_s":      time.Since(r.start).Seconds(),
		"violations":  len(r.newViol),
	}
	if r.Assume == nil {
		evd["assumptions"] = []string{}
	}
	b, _ := json.MarshalIndent(evd, "", " ")
	dir := filepath.Join(r.VerifDir, "evidence")
	if d := os.Getenv("VERIF_EVIDENCE_DIR"); d != "" {
		dir = d // runs against scratch copies of the repository (seeded changes) must not overwrite the evidence of the real tree
	}
	os.MkdirAll(dir, 0o755)
	if err := os.WriteFile(filepath.Join(dir, r.Prop+".json"), b, 0o644); err != nil {
		fmt.Fprintln(os.Stderr, "cannot write evidence:", err)
		os.Exit(2)
	}
	fmt.Printf("%s tier=%s wall=%.1fs violations=%d known=%d\n", r.Prop, r.Tier, time.Since(r.start).Seconds(), len(r.newViol), len(r.known))
	if len(r.newViol) > 0 {
		os.Exit(1)
	}
	os.Exit(0)
}

// Infra aborts with an infrastructure error (exit 2, never a verdict).
func Infra(format string, a ...any) {
	fmt.Fprintf(os.Stderr, "INFRASTRUCTURE ERROR: "+format+"\n", a...)
	os.Exit(2)
}

// Samples keeps the first n and a few later samples.
type Samples struct {
	Max  int
	List []any
	seen int
}

func (s *Samples) Add(v any) {
	s.seen++
	if str, ok := v.(string); ok && len(str) > 600 {
		v = str[:600] + fmt.Sprintf("... (%d bytes)", len(str))
	}
	if s.Max == 0 {
		s.Max = 5
	}
	if len(s.List) < s.Max {
		s.List = append(s.List, v)
	} else if s.seen%1009 == 0 && len(s.List) < 2*s.Max {
		s.List = append(s.List, v)
	}
}

// LoadReplay reads the "replay" object of a replay file written by Violation into v and returns the stored
// signature and detail. Checks without a targeted replay simply run in full (and re-detect the violation).
func (r *Run) LoadReplay(v any) (sig, detail string, err error) {
	b, err := os.ReadFile(r.Replay)
	if err != nil {
		return "", "", err
	}
	var f struct {
		Signature string          `json:"signature"`
		Detail    string          `json:"detail"`
		Replay    json.RawMessage `json:"replay"`
	}
	if err := json.Unmarshal(b, &f); err != nil {
		return "", "", err
	}
	return f.Signature, f.Detail, json.Unmarshal(f.Replay, v)
}

// ReplayVerdict prints the outcome of a targeted replay and exits (1 if the violation reproduces).
func (r *Run) ReplayVerdict(sig, detail string) {
	if sig != "" {
		fmt.Printf("VIOLATION property=%s replay=%s\n  signature: %s\n  detail: %s\n", r.Prop, r.Replay, sig, detail)
		os.Exit(1)
	}
	fmt.Println("replay: no violation on this tree")
	os.Exit(0)
}

// raceAudit folds the result of the free-running race-detector audit (run by ./check before the harness)
// into the evidence; a reported race or a broken mutual exclusion is a violation.
func (r *Run) raceAudit(cov Coverage) {
	path := os.Getenv("VERIF_RACE_JSON")
	if path == "" || r.IsWorker() {
		return
	}
	f, err := os.Open(path)
	if err != nil {
		return
	}
	defer f.Close()
	var res []any
	sc := bufio.NewScanner(f)
	for sc.Scan() {
		var e struct {
			Pkg  string `json:"pkg"`
			Exit int    `json:"exit"`
			Dur  string `json:"dur"`
			Log  string `json:"log"`
			Out  string `json:"out"`
		}
		if json.Unmarshal(sc.Bytes(), &e) != nil {
			continue
		}
		out, _ := os.ReadFile(e.Out)
		summary := strings.TrimSpace(string(out))
		switch e.Exit {
		case 0:
		case 66:
			lg, _ := os.ReadFile(e.Log)
			r.Violation("data-race "+e.Pkg, "the race detector reported a data race in the free-running audit of "+e.Pkg+":\n"+firstLines(string(lg), 60), map[string]any{"audit": e.Pkg, "log": e.Log})
			summary = "DATA RACE reported"
		case 124, 137:
			// the stress bodies did not return (./check kills the audit after a generous wall-clock limit). A free-running
			// hang is no verdict of this family: it is recorded, and the controlled exploration that follows decides.
			summary = "NO VERDICT: the free-running bodies did not return within the wall-clock limit; " + firstLines(summary, 2)
		case 67:
			r.Violation("free-running mutual exclusion "+e.Pkg, summary, map[string]any{"audit": e.Pkg})
		default:
			r.Violation("audit-crash "+e.Pkg, fmt.Sprintf("the free-running audit of %s exited with status %d:\n%s", e.Pkg, e.Exit, firstLines(summary, 60)), map[string]any{"audit": e.Pkg})
		}
		res = append(res, map[string]any{"package": e.Pkg, "duration": e.Dur, "exit": e.Exit, "summary": firstLines(summary, 3)})
	}
	if res != nil {
		cov["race_audit"] = res
		cov["race_audit_note"] = "supplementary, free-running and time-boxed (not exhaustive): audits the data-race-freedom assumption of the controlled scheduler; silence is not a proof"
	}
}
