// Package maph is the shared explicit-state search over the ordered map
// (container/iterable.Map) used by C10 (iteration correctness) and C11
// (nothing retained beyond live entries).
package maph

import (
	"fmt"
	"strings"
	"verifh/internal/deepdump"

	"github.com/acquirecloud/golibs/container/iterable"
	"github.com/acquirecloud/golibs/zverif/vsync"
	"verifh/internal/bfs"
)

type Op struct {
	K string // add rem get len first iter has next close
	A int    // key index or iterator slot
	V int    // value for add
}

func (o Op) String() string {
	switch o.K {
	case "add":
		return fmt.Sprintf("Add(%c,%d)", 'a'+o.A, o.V)
	case "rem", "get":
		return fmt.Sprintf("%s(%c)", map[string]string{"rem": "Remove", "get": "Get"}[o.K], 'a'+o.A)
	case "len":
		return "Len"
	case "first":
		return "First"
	case "iter":
		return "Iterator"
	default:
		return fmt.Sprintf("%s(it%d)", map[string]string{"has": "HasNext", "next": "Next", "close": "Close"}[o.K], o.A)
	}
}

type entry struct {
	key, val int
	live     bool
}

type Sys struct {
	Keys, Vals, MaxIters int
	m                    *iterable.Map[int, int]
	its                  []iterable.Iterator[iterable.MapEntry[int, int]]
	log                  []entry
	cur                  []int // model cursor per slot, -1 closed
}

func init() { vsync.DeterministicPools = true }

func New(keys, vals, iters int) *Sys {
	s := &Sys{Keys: keys, Vals: vals, MaxIters: iters, m: iterable.NewMap[int, int]()}
	s.its = make([]iterable.Iterator[iterable.MapEntry[int, int]], iters)
	s.cur = make([]int, iters)
	for i := range s.cur {
		s.cur[i] = -1
	}
	return s
}

func (s *Sys) liveIdx(k int) int {
	for i, e := range s.log {
		if e.live && e.key == k {
			return i
		}
	}
	return -1
}

func (s *Sys) firstLiveFrom(c int) int {
	for i := c; i < len(s.log); i++ {
		if s.log[i].live {
			return i
		}
	}
	return len(s.log)
}

func (s *Sys) liveCount() int {
	n := 0
	for _, e := range s.log {
		if e.live {
			n++
		}
	}
	return n
}

// Enabled lists the operations applicable in the current state.
func (s *Sys) Enabled() []Op {
	var ops []Op
	for k := 0; k < s.Keys; k++ {
		for v := 1; v <= s.Vals; v++ { // values start at 1: a zero value in a node means "holds nothing"
			ops = append(ops, Op{"add", k, v})
		}
		ops = append(ops, Op{"rem", k, 0}, Op{"get", k, 0})
	}
	ops = append(ops, Op{"len", 0, 0}, Op{"first", 0, 0})
	free := -1
	for i, c := range s.cur {
		if c < 0 {
			if free < 0 {
				free = i
			}
			continue
		}
		ops = append(ops, Op{"has", i, 0}, Op{"next", i, 0}, Op{"close", i, 0})
	}
	if free >= 0 {
		ops = append(ops, Op{"iter", free, 0})
	}
	return ops
}

// Apply runs one op on the real map and the model; returns a violation signature/detail or "".
func (s *Sys) Apply(o Op) (sig, detail string) {
	defer func() {
		if r := recover(); r != nil {
			sig, detail = "panic in "+o.K, fmt.Sprintf("%v panicked: %v", o, r)
		}
	}()
	bad := func(clause, f string, a ...any) (string, string) {
		return o.K + ":" + clause, fmt.Sprintf("%v: ", o) + fmt.Sprintf(f, a...)
	}
	switch o.K {
	case "add":
		err := s.m.Add(o.A, o.V)
		if s.liveIdx(o.A) >= 0 {
			if err == nil {
				return bad("dup", "Add of a present key returned nil")
			}
		} else {
			if err != nil {
				return bad("err", "Add of an absent key returned %v", err)
			}
			s.log = append(s.log, entry{o.A, o.V, true})
		}
	case "rem":
		s.m.Remove(o.A)
		if i := s.liveIdx(o.A); i >= 0 {
			s.log[i].live = false
		}
	case "get":
		v, ok := s.m.Get(o.A)
		i := s.liveIdx(o.A)
		if ok != (i >= 0) || (ok && v != s.log[i].val) || (!ok && v != 0) {
			return bad("value", "Get returned (%d,%v), model live index %d", v, ok, i)
		}
	case "len":
		if n := s.m.Len(); n != s.liveCount() {
			return bad("len", "Len()=%d, model %d", n, s.liveCount())
		}
	case "first":
		k, ok := s.m.First()
		i := s.firstLiveFrom(0)
		if ok != (i < len(s.log)) || (ok && k != s.log[i].key) {
			return bad("first", "First()=(%d,%v), model oldest live index %d of %d", k, ok, i, len(s.log))
		}
	case "iter":
		s.its[o.A] = s.m.Iterator()
		s.cur[o.A] = s.firstLiveFrom(0)
	case "has":
		got := s.its[o.A].HasNext()
		want := s.firstLiveFrom(s.cur[o.A]) < len(s.log)
		if got != want {
			return bad("hasnext", "HasNext()=%v, model %v", got, want)
		}
	case "next":
		e, ok := s.its[o.A].Next()
		i := s.firstLiveFrom(s.cur[o.A])
		if i < len(s.log) {
			if !ok || e.Key != s.log[i].key || e.Value != s.log[i].val {
				return bad("next", "Next()=(%d:%d,%v), model expects entry %d:%d", e.Key, e.Value, ok, s.log[i].key, s.log[i].val)
			}
			s.cur[o.A] = i + 1
		} else {
			if ok {
				return bad("next-extra", "Next()=(%d:%d,true) but the model has no live entry at or after the cursor", e.Key, e.Value)
			}
			s.cur[o.A] = len(s.log)
		}
	case "close":
		if err := s.its[o.A].Close(); err != nil {
			return bad("close", "Close returned %v", err)
		}
		s.its[o.A] = nil
		s.cur[o.A] = -1
	}
	return s.invariants(o)
}

// Dump returns the implementation state in canonical, pointer-free form.
func (s *Sys) Dump() (nodes []iterable.VerifNode[int, int], pos []int, problems []string) {
	nodes, problems, _ = iterable.VerifMapDump(s.m)
	pos = make([]int, len(s.its))
	for i, it := range s.its {
		pos[i] = -1
		if it != nil {
			pos[i] = iterable.VerifIterPos(s.m, it)
		}
	}
	return
}

// OpenIters is the number of iterators currently open.
func (s *Sys) OpenIters() int {
	n := 0
	for _, c := range s.cur {
		if c >= 0 {
			n++
		}
	}
	return n
}

func (s *Sys) invariants(o Op) (string, string) {
	nodes, problems, idx := iterable.VerifMapDump(s.m)
	if len(problems) > 0 {
		return "inv:structure", fmt.Sprintf("after %v: %s", o, strings.Join(problems, "; "))
	}
	if n := nodes[len(nodes)-1]; n.Val != 0 {
		return "inv:sentinel-holds-value", fmt.Sprintf("after %v: the tail sentinel (a recycled node) still holds the value %d of an entry that is gone; nodes=%v", o, n.Val, nodes)
	}
	parked := make([]int, len(nodes))
	for i, it := range s.its {
		if it == nil {
			continue
		}
		p := iterable.VerifIterPos(s.m, it)
		if p < 0 {
			return "inv:iter-unreachable", fmt.Sprintf("after %v: iterator %d is parked on a node that is not reachable from head", o, i)
		}
		parked[p]++
	}
	li := 0
	var liveIdx []int
	for i, e := range s.log {
		if e.live {
			liveIdx = append(liveIdx, i)
		}
	}
	for i, n := range nodes {
		if n.RefCnt != parked[i] {
			return "inv:refcnt", fmt.Sprintf("after %v: node %d (state %d key %d) has refCnt %d but %d iterators are parked on it; nodes=%v", o, i, n.State, n.Key, n.RefCnt, parked[i], nodes)
		}
		switch n.State {
		case 1:
			if li >= len(liveIdx) || s.log[liveIdx[li]].key != n.Key || s.log[liveIdx[li]].val != n.Val {
				return "inv:order", fmt.Sprintf("after %v: live node %d (%d:%d) does not match the model's live sequence", o, i, n.Key, n.Val)
			}
			if idx[n.Key] != i {
				return "inv:index", fmt.Sprintf("after %v: index of key %d points to node %d, node is %d", o, n.Key, idx[n.Key], i)
			}
			li++
		case 2:
			if n.RefCnt == 0 {
				return "inv:zombie", fmt.Sprintf("after %v: removed node %d (key %d) is still linked although no iterator references it; nodes=%v", o, i, n.Key, nodes)
			}
		}
	}
	if li != len(liveIdx) || len(idx) != len(liveIdx) {
		return "inv:live-missing", fmt.Sprintf("after %v: %d live nodes linked, index has %d keys, model has %d live entries", o, li, len(idx), len(liveIdx))
	}
	return "", ""
}

// Key is the canonical state: implementation dump + model abstraction.
func (s *Sys) Key() string {
	nodes, pos, _ := s.Dump()
	var b strings.Builder
	for _, n := range nodes {
		fmt.Fprintf(&b, "%d.%d.%d.%d|", n.State, n.Key, n.Val, n.RefCnt)
	}
	b.WriteByte('#')
	for _, p := range pos {
		fmt.Fprintf(&b, "%d,", p)
	}
	// the free list is implementation state too: a recycled node may carry stale fields
	b.WriteString("#pool:" + strings.Join(iterable.VerifPoolDump(s.m), ","))
	// ... and so is everything else the map and its open iterators consist of, whatever fields they have (deepdump)
	b.WriteString("#impl:" + deepdump.Dump(struct {
		M   any
		Its any
	}{s.m, s.its}, deepdump.Options{}))
	b.WriteByte('#')
	// model: live entries and, per iterator, how many live entries precede its cursor
	for _, e := range s.log {
		if e.live {
			fmt.Fprintf(&b, "%d:%d,", e.key, e.val)
		}
	}
	b.WriteByte('#')
	for _, c := range s.cur {
		if c < 0 {
			b.WriteString("-,")
			continue
		}
		n := 0
		for i := 0; i < c && i < len(s.log); i++ {
			if s.log[i].live {
				n++
			}
		}
		fmt.Fprintf(&b, "%d,", n)
	}
	return b.String()
}

// Spec builds the BFS specification; extra (optional) adds a further oracle evaluated after every step.
func Spec(keys, vals, iters int, extra func(s *Sys, o Op) (string, string)) bfs.Spec[Op] {
	return bfs.Spec[Op]{
		Run: func(path []Op) (string, []Op, *bfs.Violation) {
			s := New(keys, vals, iters)
			for i, o := range path {
				sig, det := s.Apply(o)
				if sig == "" && extra != nil {
					sig, det = extra(s, o)
				}
				if sig != "" {
					if i != len(path)-1 {
						return "", nil, &bfs.Violation{Sig: "nondeterministic-replay", Detail: det}
					}
					return "", nil, &bfs.Violation{Sig: sig, Detail: det}
				}
			}
			return s.Key(), s.Enabled(), nil
		},
	}
}

// FormatPath renders an op list.
func FormatPath(p []Op) string {
	ss := make([]string, len(p))
	for i, o := range p {
		ss[i] = o.String()
	}
	return strings.Join(ss, "; ")
}
