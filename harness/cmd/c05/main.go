// C05 - distributed lock: lease is kept while held and lapses after holder death.
package main

import (
	"fmt"
	"sort"
	"strings"
	"time"

	"github.com/acquirecloud/golibs/zverif/vsched"
	"verifh/internal/ev"
	"verifh/internal/lockh"
	"verifh/internal/sdrv"
)

func job(sc *lockh.LeaseScenario, cfg vsched.Config) sdrv.Job {
	obs := new(lockh.LeaseObs)
	return sdrv.Job{
		Name: fmt.Sprintf("%s P=%d F=%d", sc, cfg.P, cfg.F), Cfg: cfg, Scenario: sc.Build(obs),
		Check: func(x *vsched.Exec) (string, *vsched.Violation) {
			ctxt := "\nscenario: " + sc.String() + "\nnotes: " + strings.Join(x.Notes, " / ")
			if len(x.Panics) > 0 {
				return "panic", &vsched.Violation{Sig: sc.Kind + ":panic", Detail: x.Panics[0] + ctxt}
			}
			if obs.Problem != "" {
				return "violation", &vsched.Violation{Sig: obs.Sig, Detail: obs.Problem + ctxt}
			}
			if x.Outcome != vsched.Completed {
				return x.Outcome.String(), &vsched.Violation{Sig: sc.Kind + ":" + x.Outcome.String(), Detail: fmt.Sprintf("execution ended with %s, blocked: %v", x.Outcome, x.Blocked) + ctxt}
			}
			return sc.Kind + " " + obs.Summary, nil
		},
	}
}

func main() {
	run := ev.Parse("C05", "model_checking")
	fine := vsched.Mask(vsched.KLock, vsched.KChan, vsched.KAtomic, vsched.KEnv, vsched.KSleep)
	var jobs []sdrv.Job
	leases := []time.Duration{30 * time.Millisecond, 10 * time.Second, 100 * time.Second}
	pk, pf, pl, pd := 0, 0, 1, 2
	if run.Thorough() {
		pk, pf, pl, pd = 1, 1, 2, 3
	}
	for _, L := range leases {
		jobs = append(jobs, job(&lockh.LeaseScenario{Kind: "kept", Lease: L, Holds: 3.5}, vsched.Config{P: pk + 1, Preempt: fine, MaxSteps: 60000}))
		jobs = append(jobs, job(&lockh.LeaseScenario{Kind: "kept", Lease: L, Holds: 3.5, RenewFaults: true}, vsched.Config{P: pf, F: 1, Preempt: fine, MaxSteps: 60000}))
		if run.Thorough() {
			jobs = append(jobs, job(&lockh.LeaseScenario{Kind: "kept", Lease: L, Holds: 2.5, RenewFaults: true}, vsched.Config{P: 0, F: 2, Preempt: fine, MaxSteps: 60000}))
		}
		// many transient renewal failures spread over one long tenure (each healed by its retry): the lease is kept
		if L == leases[1] {
			jobs = append(jobs, job(&lockh.LeaseScenario{Kind: "kept", Lease: L, Holds: 4.5, RenewFaults: true, ManyFaults: true}, vsched.Config{P: 0, F: 4, Preempt: fine, MaxSteps: 60000}))
		}
		// a slow storage: every renewal takes a sixth of a lease (request or reply side); it answers every time, the lease is kept
		for _, side := range []string{"request", "reply"} {
			jobs = append(jobs, job(&lockh.LeaseScenario{Kind: "kept", Lease: L, Holds: 2.5, SlowCas: side}, vsched.Config{P: pk, Preempt: fine, MaxSteps: 60000}))
		}
		// the context the lock was acquired with ends during the tenure (a storage that honours contexts): the lease is kept all the same
		jobs = append(jobs, job(&lockh.LeaseScenario{Kind: "kept", Lease: L, Holds: 2.5, CtxEnds: true}, vsched.Config{P: pk, Preempt: fine, MaxSteps: 60000}))
		for _, h := range []float64{0.3, 0.8, 1.6} {
			jobs = append(jobs, job(&lockh.LeaseScenario{Kind: "handover", Lease: L, Holds: h}, vsched.Config{P: pk + 1, Preempt: fine, MaxSteps: 60000}))
		}
		for _, ph := range []float64{0, 0.25, 0.5, 0.75, 0.999, 1.0} {
			jobs = append(jobs, job(&lockh.LeaseScenario{Kind: "lapse", Lease: L, DiePhase: ph}, vsched.Config{P: pl, Preempt: fine, MaxSteps: 60000}))
		}
		jobs = append(jobs, job(&lockh.LeaseScenario{Kind: "lapse", Lease: L, DiePhase: -1}, vsched.Config{P: pl, Preempt: fine, MaxSteps: 60000}))
		for _, ph := range []float64{0, 0.5} {
			jobs = append(jobs, job(&lockh.LeaseScenario{Kind: "lapse", Lease: L, DiePhase: ph, TwoWaiters: true}, vsched.Config{P: pl - 1, Preempt: fine, MaxSteps: 60000}))
		}
		for _, same := range []bool{true, false} {
			jobs = append(jobs, job(&lockh.LeaseScenario{Kind: "diesout", Lease: L, SameLocker: same}, vsched.Config{P: pd, Preempt: fine, MaxSteps: 60000}))
			// a renewal in flight during Unlock that fails transiently must not re-arm anything for the finished tenure
			jobs = append(jobs, job(&lockh.LeaseScenario{Kind: "diesout", Lease: L, SameLocker: same, RenewFaults: true}, vsched.Config{P: pd - 1, F: 1, Preempt: fine, MaxSteps: 60000}))
		}
	}
	// the same guarantees over kvs/redis (miniredis on the virtual clock; sub-second leases: Redis' TTL arithmetic is in play)
	cmd := vsched.Mask(vsched.KEnv, vsched.KSleep)
	for _, L := range []time.Duration{300 * time.Millisecond, 700 * time.Millisecond} {
		jobs = append(jobs, job(&lockh.LeaseScenario{Kind: "kept", Lease: L, Holds: 2.5, Storage: "redis"}, vsched.Config{P: pk, Preempt: cmd, MaxSteps: 60000}))
		jobs = append(jobs, job(&lockh.LeaseScenario{Kind: "handover", Lease: L, Holds: 0.8, Storage: "redis"}, vsched.Config{P: pk, Preempt: cmd, MaxSteps: 60000}))
		for _, ph := range []float64{0, 0.5, 0.999} {
			jobs = append(jobs, job(&lockh.LeaseScenario{Kind: "lapse", Lease: L, DiePhase: ph, Storage: "redis"}, vsched.Config{P: pk, Preempt: cmd, MaxSteps: 60000}))
		}
	}
	sort.SliceStable(jobs, func(a, b int) bool { return jobs[a].Cfg.P+jobs[a].Cfg.F > jobs[b].Cfg.P+jobs[b].Cfg.F })
	budget := 4 * time.Minute
	if run.Thorough() {
		budget = 12 * time.Minute
	}
	sdrv.Main(run, jobs, sdrv.Options{
		Budget: budget,
		Bounds: map[string]any{"leases": []string{"30ms", "10s", "100s (> the 30s idle timeout of the timer pool)"}, "P_kept": pk + 1, "P_kept_with_fault": pf, "F": 1, "P_lapse": pl, "P_diesout": pd},
		Rule:   "virtual time, maximal-progress clock, real kvlock+timeout+inmem. handover: a contender that has been waiting for 0.3 / 0.8 / 1.6 leases takes over and holds for 2.5 leases under the same record/TryLock probes (its record must be fresh). kept: holder holds 3.5 leases, a contender of another provider waits in LockWithCtx the whole time, a prober of a third provider checks the record (exists, ExpiresAt > now) and TryLocks every quarter lease, a goroutine of the holder's own process TryLocks the same Locker object every third of a lease; with renewal faults every renewal call may be lost (request or reply), budget F. lapse (also with a first waiter that gives up a quarter lease after the death while a second one stays): the holder's process dies (its storage calls vanish) at 6 scripted phases of the renewal cycle and at any scheduling point (pseudo thread); the waiting contender must hold the lock within lease + one renewal period. diesout: Unlock exactly when the renewal timer fires (every order within the preemption bound), then a second tenure on the same / another Locker; at most one renewal attempt reaches the storage after Unlock returned, none succeeds, and at quiescence no timer is armed and every timer goroutine has exited",
	})
}
