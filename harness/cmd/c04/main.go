// C04 - distributed lock: hand-off, cancellation and shutdown leave no residue.
package main

import (
	"fmt"
	"os"
	"sort"
	"strings"
	"time"

	"github.com/acquirecloud/golibs/zverif/vsched"
	"verifh/internal/ev"
	"verifh/internal/lockh"
	"verifh/internal/sdrv"
)

const lease = 10 * time.Second

func progs(names ...string) []lockh.Prog {
	var r []lockh.Prog
	for _, n := range names {
		var p lockh.Prog
		for i := 0; i < len(n); i++ {
			a := lockh.Acq{Mode: n[i]}
			if i+1 < len(n) && n[i+1] == 'h' {
				a.Hold = lease / 2
				i++
			}
			p = append(p, a)
		}
		r = append(r, p)
	}
	return r
}

func product(alpha []lockh.Prog, n int) [][]lockh.Prog {
	if n == 0 {
		return [][]lockh.Prog{nil}
	}
	var r [][]lockh.Prog
	for _, rest := range product(alpha, n-1) {
		for _, p := range alpha {
			r = append(r, append(append([]lockh.Prog{}, rest...), p))
		}
	}
	return r
}

func job(sc *lockh.Scenario, cfg vsched.Config) sdrv.Job {
	obs := new(lockh.Obs)
	return sdrv.Job{
		Name:     fmt.Sprintf("%s P=%d", sc, cfg.P),
		Cfg:      cfg,
		Scenario: sc.Build(obs),
		Check: func(x *vsched.Exec) (string, *vsched.Violation) {
			ctxt := "\nscenario: " + sc.String() + "\nresults: " + strings.Join(obs.Results, " | ")
			if len(x.Panics) > 0 {
				return "panic", &vsched.Violation{Sig: "panic", Detail: x.Panics[0] + ctxt}
			}
			if x.Outcome == vsched.Deadlock {
				return "deadlock", &vsched.Violation{Sig: "lost-wakeup (deadlock) shutdown=" + fmt.Sprint(sc.Shutdown >= 0), Detail: fmt.Sprintf("nothing can move but workers are still blocked: %v (done=%v)", x.Blocked, obs.WorkerDone) + ctxt}
			}
			if x.Outcome == vsched.Horizon {
				return "horizon", &vsched.Violation{Sig: "non-termination", Detail: "step horizon reached" + ctxt}
			}
			for w, r := range obs.Results {
				if strings.Contains(r, "BAD:") {
					return "bad-return", &vsched.Violation{Sig: "wrong-error-returned", Detail: fmt.Sprintf("worker %d: %s", w, r) + ctxt}
				}
			}
			if !strings.Contains(sc.String(), "h") && x.EndNow > time.Second && !sc.Faults {
				// no program sleeps, so every hand-off must happen without the clock: if virtual time had to advance,
				// a blocked caller was only released by a timer (lease expiry), i.e. its wake-up was lost
				return "late-handoff", &vsched.Violation{Sig: "lost-wakeup (released only by lease expiry)", Detail: fmt.Sprintf("all workers finished, but only after the virtual clock advanced to +%v: a waiting caller was not woken by the Unlock / cancellation and had to wait for the record's expiration", x.EndNow) + ctxt}
			}
			if obs.DoubleHold != "" {
				return "double-hold", &vsched.Violation{Sig: "two-holders", Detail: obs.DoubleHold + ctxt}
			}
			if obs.AfterShut != "" {
				return "after-shutdown", &vsched.Violation{Sig: "acquired-after-shutdown", Detail: obs.AfterShut + ctxt}
			}
			if obs.Residue != "" {
				sig := "residue"
				switch {
				case strings.Contains(obs.Residue, "record still present"):
					sig = "residue:lock-record"
				case strings.Contains(obs.Residue, "waiter table"):
					sig = "residue:waiter-table"
				case strings.Contains(obs.Residue, "cannot be re-acquired"):
					sig = "residue:locker-unusable"
				case strings.Contains(obs.Residue, "after Shutdown"):
					sig = "acquired-after-shutdown"
				}
				return "residue", &vsched.Violation{Sig: sig, Detail: obs.Residue + ctxt}
			}
			return fmt.Sprintf("acquired=%v shut=%v", obs.Acquired, obs.ShutdownDone), nil
		},
	}
}

func main() {
	run := ev.Parse("C04", "model_checking")
	fine := vsched.Mask(vsched.KLock, vsched.KChan, vsched.KAtomic, vsched.KEnv, vsched.KSleep)
	var jobs []sdrv.Job
	honour := false
	faults := false
	add := func(topos []string, alpha []lockh.Prog, shutdown int, cfg vsched.Config) {
		for _, tn := range topos {
			topo := lockh.Topologies[tn]
			for _, ps := range product(alpha, len(topo.LockerOf)) {
				sc := &lockh.Scenario{Topo: topo, Progs: ps, Shutdown: shutdown, Lease: lease, Residue: true, HonourCtx: honour, ReplyPoint: !faults, Faults: faults}
				c := cfg
				nC := strings.Count(sc.String(), "C")
				if !run.Thorough() && c.P > 1 && nC >= 2 {
					c.P = 1 // quick tier: two cancellable attempts multiply the schedule tree; P=2 for them is in the thorough tier
				}
				if !run.Thorough() && len(ps) == 3 && nC >= 2 {
					continue
				}
				jobs = append(jobs, job(sc, c))
			}
		}
	}
	two := []string{"a", "b", "c"}
	bounds := map[string]any{}
	budget := 4 * time.Minute
	if !run.Thorough() {
		add(two, progs("L", "T", "C", "X", "Y"), -1, vsched.Config{P: 2, Preempt: fine, MaxSteps: 5000})
		add(two, progs("L", "T", "C", "LL", "TT", "CT", "CL", "XL", "Lh"), -1, vsched.Config{P: 1, Preempt: fine, MaxSteps: 5000})
		add(two, progs("L", "T", "C", "TT", "LL"), 0, vsched.Config{P: 1, Preempt: fine, MaxSteps: 5000})
		add([]string{"d"}, progs("L", "T", "C"), -1, vsched.Config{P: 1, Preempt: fine, MaxSteps: 5000})
		add([]string{"e"}, progs("L", "C"), -1, vsched.Config{P: 1, Preempt: fine, MaxSteps: 5000})
		// one storage fault (request or reply lost) on any acquire/release-path call: whatever the attempt returns,
		// every locker is usable again once all leases have lapsed
		faults = true
		add(two, progs("L", "T", "C", "LT"), -1, vsched.Config{P: 1, F: 1, Preempt: fine, MaxSteps: 5000})
		faults = false
		honour = true // the same storage, but refusing calls whose context has ended (as networked storages do)
		add(two, progs("L", "T", "C", "X", "Y"), -1, vsched.Config{P: 1, Preempt: fine, MaxSteps: 5000})
		honour = false
		bounds["tiers"] = "3 distinct lockers (3 providers) {L,C}^3 with at most one C, P<=1; 2 workers {L,T,C,X}^2 P<=2; 9-program alphabet P<=1; Shutdown pseudo thread with {L,T,C,TT,LL}^2 P<=1; 3 workers {L,T,C}^3 P<=1; one storage fault F<=1 with {L,T,C,LT}^2 P<=1"
	} else {
		add(two, progs("L", "T", "C", "X", "Y"), -1, vsched.Config{P: 3, Preempt: fine, MaxSteps: 5000})
		add(two, progs("L", "T", "C", "LL", "TT", "CT", "CL", "XL", "Lh"), -1, vsched.Config{P: 2, Preempt: fine, MaxSteps: 5000})
		add(two, progs("L", "T", "C", "TT", "LL", "CT"), 0, vsched.Config{P: 2, Preempt: fine, MaxSteps: 5000})
		add([]string{"d", "e"}, progs("L", "T", "C"), -1, vsched.Config{P: 2, Preempt: fine, MaxSteps: 5000})
		faults = true // same bounds as the quick tier
		add(two, progs("L", "T", "C", "LT"), -1, vsched.Config{P: 1, F: 1, Preempt: fine, MaxSteps: 5000})
		faults = false
		add([]string{"d"}, progs("L", "T", "C"), 0, vsched.Config{P: 1, Preempt: fine, MaxSteps: 5000})
		honour = true
		add(two, progs("L", "T", "C", "X", "Y", "CT", "XL"), -1, vsched.Config{P: 2, Preempt: fine, MaxSteps: 5000})
		honour = false
		bounds["tiers"] = "2 workers {L,T,C,X}^2 P<=3; 9-program alphabet P<=2; Shutdown P<=2; 3 workers P<=2 (topologies d,e), with Shutdown P<=1"
		budget = 12 * time.Minute
	}
	weight := func(j sdrv.Job) int { return j.Cfg.P*100 + 10*strings.Count(j.Name, "C") + len(j.Name) }
	sort.SliceStable(jobs, func(a, b int) bool { return weight(jobs[a]) > weight(jobs[b]) })
	if os.Getenv("VERIF_BUDGET_S") != "" {
		var sec int
		fmt.Sscan(os.Getenv("VERIF_BUDGET_S"), &sec)
		budget = time.Duration(sec) * time.Second
	}
	sdrv.Main(run, jobs, sdrv.Options{
		Budget: budget, Bounds: bounds,
		Rule: "every schedule within the preemption bound of every program tuple over {L=Lock, T=TryLock, C=LockWithCtx with a canceller pseudo thread that fires at any point (before the call, during the local token wait, during the storage wait, after success), X=LockWithCtx(cancelled ctx), two-attempt programs, Lh=hold across a renewal} plus a Shutdown pseudo thread; every successful attempt is followed by Unlock. Oracles: (1) every maximal execution ends with all workers finished (a deadlock with a blocked worker = lost wake-up) and, when no program sleeps, without the virtual clock having to advance (a waiter released only by the lease expiry = lost wake-up); (2) a cancelled LockWithCtx returns ctx.Err(), nothing else; (3) at the end the lock record is gone, the in-memory waiter table is empty and a fresh TryLock on every Locker succeeds (unless shut down); (4) an attempt invoked after Shutdown() returned never acquires; (5) fault family (quick tier): with at most one storage fault (request or reply lost) on any acquire/release-path storage call no worker stays blocked and, once all leases have lapsed, a TryLock on every Locker succeeds",
	})
}
