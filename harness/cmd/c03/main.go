// C03 - KV backends implement one and the same sequential contract.
package main

import (
	"context"
	"fmt"
	"runtime"
	"sort"
	"strings"
	"sync"
	"time"

	"github.com/acquirecloud/golibs/kvs"
	"verifh/internal/bfs"
	"verifh/internal/ev"
	"verifh/internal/kvh"
)

type env struct {
	im kvh.Backend
	rd *kvh.RedisBackend
}

func alphabet(keys []string, thorough bool) []kvh.Op {
	var ops []kvh.Op
	vals := []int{0, 1, 2}
	for _, k := range keys {
		for _, v := range vals {
			for e := 0; e <= 1; e++ {
				ops = append(ops, kvh.Op{Kind: "create", Key: k, Val: v, Exp: e})
				ops = append(ops, kvh.Op{Kind: "put", Key: k, Val: v, Exp: e})
			}
		}
		for _, ver := range []kvh.VerKind{kvh.VCurrent, kvh.VStale, kvh.VNever, kvh.VEmpty} {
			ops = append(ops, kvh.Op{Kind: "cas", Key: k, Val: 3, Exp: 0, Ver: ver})
			if thorough || ver == kvh.VCurrent {
				ops = append(ops, kvh.Op{Kind: "cas", Key: k, Val: 0, Exp: 1, Ver: ver})
			}
		}
		ops = append(ops, kvh.Op{Kind: "get", Key: k}, kvh.Op{Kind: "delete", Key: k})
	}
	ops = append(ops, kvh.Op{Kind: "get", Key: "zz"}, kvh.Op{Kind: "delete", Key: "zz"})
	a, b := keys[0], keys[1]
	last := keys[len(keys)-1]
	ops = append(ops,
		kvh.Op{Kind: "putmany"},
		kvh.Op{Kind: "putmany", Keys: []string{a}, Vals: []int{2}, Exps: []int{0}},
		kvh.Op{Kind: "putmany", Keys: []string{a, b}, Vals: []int{2, 0}, Exps: []int{0, 0}},
		kvh.Op{Kind: "putmany", Keys: []string{a, a}, Vals: []int{2, 3}, Exps: []int{0, 0}},
		kvh.Op{Kind: "putmany", Keys: []string{a, b}, Vals: []int{1, 2}, Exps: []int{1, 0}},
		kvh.Op{Kind: "putmany", Keys: []string{a, a}, Vals: []int{2, 3}, Exps: []int{1, 0}},
		kvh.Op{Kind: "putmany", Keys: []string{a, a}, Vals: []int{2, 3}, Exps: []int{0, 1}},
		kvh.Op{Kind: "putmany", Keys: []string{b, a, b}, Vals: []int{2, 2, 3}, Exps: []int{1, 1, 0}},
		kvh.Op{Kind: "putmany", Keys: []string{last}, Vals: []int{2}, Exps: []int{1}},
		kvh.Op{Kind: "getmany"},
		kvh.Op{Kind: "getmany", Keys: []string{a}},
		kvh.Op{Kind: "getmany", Keys: []string{a, b}},
		kvh.Op{Kind: "getmany", Keys: []string{a, a}},
		kvh.Op{Kind: "getmany", Keys: []string{"zz", a}},
		kvh.Op{Kind: "getmany", Keys: []string{last, a, "zz"}},
		kvh.Op{Kind: "getmany", Keys: longKeyList(a, b, last)},
	)
	// {a,b} and [!a] are gobwas/glob syntax (the documented one) that the Redis MATCH dialect does not share
	// "[a" is not a valid pattern: refused, every time
	pats := []string{"*", "a*", "?", "[ab]", "b", "zz*", "/*", "{a,b}", "[!a]", "[a"}
	if thorough {
		pats = append(pats, "??", "[^a]", "{a,/c}")
	}
	for _, p := range pats {
		ops = append(ops, kvh.Op{Kind: "list", Pat: p})
	}
	return ops
}

// longKeyList: 70 keys (more than any batch size one might pick), different keys on both sides of position 64
func longKeyList(a, b, c string) []string {
	var ks []string
	for i := 0; i < 64; i++ {
		ks = append(ks, a)
	}
	return append(ks, b, c, a, "zz", b, c)
}

var (
	knownMu   sync.Mutex
	knownSeen = map[string]bool{}
)

func main() {
	run := ev.Parse("C03", "model_checking")
	keys := []string{"a", "b", "/c"}
	deadline := time.Now().Add(4 * time.Minute)
	if run.Thorough() {
		deadline = time.Now().Add(12 * time.Minute)
	}
	al := alphabet(keys, run.Thorough())
	workers := runtime.NumCPU()
	pool := make(chan *env, workers)
	for i := 0; i < workers; i++ {
		pool <- &env{im: kvh.NewInmem(), rd: kvh.NewRedis(false)}
	}
	base := time.Now().Truncate(time.Second)
	obsKeys := append(append([]string{}, keys...), "zz", "c")
	search := func(keys []string, al []kvh.Op, obsKeys []string) (bfs.Stats, []bfs.Found[kvh.Op]) {
		sp := bfs.Spec[kvh.Op]{
			Workers:  workers,
			Deadline: deadline,
			Run: func(path []kvh.Op) (string, []kvh.Op, *bfs.Violation) {
				e := <-pool
				defer func() { pool <- e }()
				m := kvh.NewModel()
				m.WriterInKey = true
				if !run.Thorough() {
					m.WriterKeys = map[string]bool{"a": true} // quick tier: only key a carries its writer (x4 states instead of x64)
				}
				ds := []*kvh.Driver{kvh.NewDriver("inmem", e.im.Fresh(), base), kvh.NewDriver("redis", e.rd.Fresh(), base)}
				ds[0].TwoIterators, ds[1].TwoIterators = true, true
				// A listed known finding (the Redis backend strips leading '/': "/c" and "c" alias) does not end the
				// exploration behind it: it is recorded, the aliased key is no longer observed on that backend for
				// the rest of the history, and the search goes on - other defects around slash-prefixed keys stay visible.
				obs := map[string][]string{"inmem": obsKeys, "redis": obsKeys}
				for i, o := range path {
					w := m.Apply(o, ds[0])
					for _, d := range ds {
						cl, det := d.Exec(o, w)
						if cl == "" {
							cl, det = d.Observe(o, m, obs[d.Name])
						}
						if cl != "" {
							if _, known := run.IsKnown(cl); known {
								knownMu.Lock()
								knownSeen[cl] = true
								knownMu.Unlock()
								if d.Name == "redis" {
									obs["redis"] = keys // stop observing the alias "c"
								}
								continue
							}
							if i != len(path)-1 {
								return "", nil, nil
							}
							return "", nil, &bfs.Violation{Sig: cl, Detail: det}
						}
					}
				}
				// the key is the model state plus the complete state of the in-memory implementation (hidden caches,
				// flags, counters a change might add would otherwise be merged away)
				return m.CanonKey(ds[0], keys) + " | " + ds[0].ImplDump(), al, nil
			},
		}
		return bfs.Explore(sp)
	}
	st, found := search(keys, al, obsKeys)
	// second, small search: the empty key is a key like any other (own search to keep the main one small)
	ekeys := []string{"", "a"}
	var eal []kvh.Op
	for _, k := range ekeys {
		eal = append(eal, kvh.Op{Kind: "create", Key: k, Val: 2}, kvh.Op{Kind: "put", Key: k, Val: 3, Exp: 1}, kvh.Op{Kind: "get", Key: k}, kvh.Op{Kind: "delete", Key: k},
			kvh.Op{Kind: "cas", Key: k, Val: 3, Ver: kvh.VCurrent}, kvh.Op{Kind: "cas", Key: k, Val: 3, Ver: kvh.VStale})
	}
	eal = append(eal, kvh.Op{Kind: "getmany", Keys: []string{"", "a"}}, kvh.Op{Kind: "putmany", Keys: []string{"", "a"}, Vals: []int{2, 2}, Exps: []int{0, 0}},
		kvh.Op{Kind: "list", Pat: "*"}, kvh.Op{Kind: "list", Pat: ""}, kvh.Op{Kind: "list", Pat: "a*"}, kvh.Op{Kind: "list", Pat: "[ab]"})
	st2, found2 := search(ekeys, eal, []string{"", "a", "zz"})
	found = append(found, found2...)
	st.States += st2.States
	st.Transitions += st2.Transitions
	st.Fixpoint = st.Fixpoint && st2.Fixpoint
	// third part, one long deterministic history: keys that differ only in ways a key mapping might normalise away are
	// different keys (trailing / doubled slash, dot segments, blanks, case, glob meta characters, percent escapes)
	tricky := []string{"a", "a/", "a//b", "a/b", "a/./b", "a/../b", "b", "a b", " a", "a ", "a.", "A", "\u00e4", "a*", "a?", "[a]", "a\\", "%61", "a\n", "a:b", "a#b"}
	{
		e := <-pool
		ctx := context.Background()
		for name, stg := range map[string]kvs.Storage{"inmem": e.im.Fresh(), "redis": e.rd.Fresh()} {
			bad := ""
			for _, k := range tricky {
				if _, err := stg.Create(ctx, kvs.Record{Key: k, Value: []byte("value of " + k)}); err != nil && bad == "" {
					bad = fmt.Sprintf("Create(%q) on a store that holds none of the earlier keys' names returned %v", k, err)
				}
			}
			for _, k := range tricky {
				if r, err := stg.Get(ctx, k); (err != nil || string(r.Value) != "value of "+k || r.Key != k) && bad == "" {
					bad = fmt.Sprintf("after creating %d distinct keys Get(%q) = (key %q, value %q, %v)", len(tricky), k, r.Key, r.Value, err)
				}
			}
			if it, err := stg.ListKeys(ctx, "*"); err == nil {
				var got []string
				for it.HasNext() {
					k, _ := it.Next()
					got = append(got, k)
				}
				it.Close()
				sort.Strings(got)
				want := append([]string{}, tricky...)
				sort.Strings(want)
				if fmt.Sprint(got) != fmt.Sprint(want) && bad == "" {
					bad = fmt.Sprintf("ListKeys(*) = %q, the keys created are %q", got, want)
				}
			}
			for _, k := range tricky {
				if err := stg.Delete(ctx, k); err != nil && bad == "" {
					bad = fmt.Sprintf("Delete(%q) of a key created before returned %v", k, err)
				}
			}
			if bad != "" {
				found = append(found, bfs.Found[kvh.Op]{V: &bfs.Violation{Sig: name + " key-identity", Detail: name + ": " + bad}})
			}
		}
		pool <- e
	}
	// fourth part, long deterministic histories: the multi-key operations on key lists far beyond the BFS alphabet
	// (an implementation may split long lists into batches): PutMany / GetMany / ListKeys with 1..2049 keys, the
	// GetMany list reversed, with every 7th key missing and every 50th repeated
	{
		e := <-pool
		ctx := context.Background()
		for _, n := range []int{1, 2, 63, 64, 65, 127, 128, 129, 255, 256, 257, 300, 1000, 1025, 2049} {
			for name, stg := range map[string]kvs.Storage{"inmem": e.im.Fresh(), "redis": e.rd.Fresh()} {
				bad := ""
				recs := make([]kvs.Record, n)
				wantVal := map[string]string{}
				for i := range recs {
					recs[i] = kvs.Record{Key: fmt.Sprintf("k%04d", i), Value: []byte(fmt.Sprintf("value %d", i))}
					wantVal[recs[i].Key] = string(recs[i].Value)
				}
				if err := stg.PutMany(ctx, recs); err != nil {
					bad = fmt.Sprintf("PutMany of %d records returned %v", n, err)
				}
				var ask []string
				for i := n - 1; i >= 0; i-- {
					ask = append(ask, recs[i].Key)
					if i%7 == 0 {
						ask = append(ask, fmt.Sprintf("missing%04d", i))
					}
					if i%50 == 0 {
						ask = append(ask, recs[i].Key)
					}
				}
				got, err := stg.GetMany(ctx, ask...)
				if bad == "" && (err != nil || len(got) != len(ask)) {
					bad = fmt.Sprintf("GetMany of %d keys returned %d records, %v", len(ask), len(got), err)
				}
				vers := map[string]bool{}
				for i := 0; bad == "" && i < len(ask); i++ {
					k := ask[i]
					switch {
					case strings.HasPrefix(k, "missing"):
						if got[i] != nil {
							bad = fmt.Sprintf("GetMany of %d keys: position %d (key %q, never written) holds a record with key %q", len(ask), i, k, got[i].Key)
						}
					case got[i] == nil:
						bad = fmt.Sprintf("GetMany of %d keys: position %d (key %q, written by the PutMany before) is nil", len(ask), i, k)
					case got[i].Key != k || string(got[i].Value) != wantVal[k]:
						bad = fmt.Sprintf("GetMany of %d keys: position %d asked for %q and holds (key %q, value %q)", len(ask), i, k, got[i].Key, got[i].Value)
					case got[i].Version == "":
						bad = fmt.Sprintf("GetMany of %d keys: position %d (key %q) has an empty version", len(ask), i, k)
					default:
						vers[k+"="+got[i].Version] = true
					}
				}
				if bad == "" && len(vers) != n {
					bad = fmt.Sprintf("GetMany of %d keys: %d distinct (key, version) pairs for %d keys written once", len(ask), len(vers), n)
				}
				if it, err := stg.ListKeys(ctx, "k*"); err == nil && bad == "" {
					cnt := map[string]int{}
					for it.HasNext() {
						k, _ := it.Next()
						cnt[k]++
					}
					it.Close()
					for _, r := range recs {
						if cnt[r.Key] != 1 {
							bad = fmt.Sprintf("ListKeys(k*) over %d keys lists %q %d times", n, r.Key, cnt[r.Key])
							break
						}
					}
					if bad == "" && len(cnt) != n {
						bad = fmt.Sprintf("ListKeys(k*) over %d keys lists %d distinct keys", n, len(cnt))
					}
				} else if bad == "" {
					bad = fmt.Sprintf("ListKeys(k*) over %d keys returned %v", n, err)
				}
				if bad != "" {
					found = append(found, bfs.Found[kvh.Op]{V: &bfs.Violation{Sig: name + " long-key-list", Detail: name + ": " + bad}})
				}
			}
		}
		pool <- e
	}
	for k := range knownSeen {
		run.Violation(k, "", nil)
	}
	for _, f := range found {
		var ps []string
		for _, o := range f.Path {
			ps = append(ps, o.String())
		}
		run.Violation(f.V.Sig, f.V.Detail+"\nhistory: "+strings.Join(ps, "; "), map[string]any{"ops": ps})
	}
	var samples ev.Samples
	samples.Add(fmt.Sprintf("keys=%v alphabet=%d ops: states=%d transitions=%d depth=%d fixpoint=%v %s", keys, len(al), st.States, st.Transitions, st.Depth, st.Fixpoint, st.Capped))
	samples.Add("example history: create(a,v2,e1); cas(a,v3,e0,ver=current); putmany(a,a;v[2 3];e[0 0]); getmany(/c,a,zz); list(\"[ab]\")")
	run.Assume = []string{"miniredis implements SETNX, WATCH/MULTI/EXEC, MSET, PX and SCAN MATCH like Redis", "absolute version strings cannot influence the future: both backends only test them for equality, so states are merged on version tokens"}
	run.Finish(ev.Coverage{
		"states": st.States, "transitions": st.Transitions, "traces_validated_against_impl": st.Transitions * 2, "samples": samples.List,
		"exhaustive": st.Fixpoint, "fixpoint": st.Fixpoint, "depth": st.Depth, "capped": st.Capped, "alphabet_size": len(al), "states_per_depth": st.PerDepth,
		"rule": "BFS over all sequences of Storage operations (Create/Put with values nil,\"\",x and expiry none/+1h; PutMany with 0,1,2 records, repeated key, mixed expiry; Get; GetMany incl. repeats and missing keys; CasByVersion with current/stale/never-issued/empty version; Delete; ListKeys with 7-10 patterns) over keys a,(b),/c to a fixpoint of the canonical model state; the in-memory and the Redis backend (miniredis) are driven in lock-step by the same list; plus deterministic long histories (21 keys that a key mapping might normalise away; PutMany/GetMany/ListKeys over 1..2049 keys around the sizes 64/128/256/1024/2048); every result and the full observable state after every operation are compared with the reference model (versions as tokens)",
	})
}
