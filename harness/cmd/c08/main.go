// C08 - LRU cache behaves as a reference LRU for every call sequence.
package main

import (
	"fmt"
	"time"

	"verifh/internal/bfs"
	"verifh/internal/ev"
	"verifh/internal/lruh"
)

func main() {
	run := ev.Parse("C08", "model_checking")
	maxCap := 4
	if run.Thorough() {
		maxCap = 5
	}
	deadline := time.Now().Add(4 * time.Minute)
	if run.Thorough() {
		deadline = time.Now().Add(12 * time.Minute)
	}
	if run.Replay != "" {
		var rp struct {
			Front_end string
			Capacity  int
			Keys      int
			Path      []lruh.Op
		}
		if _, _, err := run.LoadReplay(&rp); err != nil {
			ev.Infra("replay: %v", err)
		}
		fmt.Println("replaying:", rp.Front_end, "capacity", rp.Capacity, lruh.FormatPath(rp.Path))
		s := lruh.New(rp.Front_end, rp.Capacity, rp.Keys)
		for _, o := range rp.Path {
			if sig, det := s.Apply(o); sig != "" {
				run.ReplayVerdict("lru "+sig, det)
			}
		}
		run.ReplayVerdict("", "")
	}
	var samples ev.Samples
	states, trans := 0, int64(0)
	fix := true
	per := []any{}
	for _, kind := range []string{"cache", "ecache", "ecacheptr", "expirable"} {
		for capa := 1; capa <= maxCap; capa++ {
			kind, capa := kind, capa
			keys := capa + 1
			if (kind == "ecache" || kind == "ecacheptr") && capa >= 3 && !run.Thorough() {
				keys = capa // two outer keys per inner key already double the alphabet
			}
			al := lruh.New(kind, capa, keys).Alphabet()
			sp := bfs.Spec[lruh.Op]{
				MaxStates: 400000,
				Deadline:  deadline,
				Run: func(path []lruh.Op) (string, []lruh.Op, *bfs.Violation) {
					s := lruh.New(kind, capa, keys)
					for i, o := range path {
						if sig, det := s.Apply(o); sig != "" {
							if i != len(path)-1 {
								return "", nil, &bfs.Violation{Sig: "nondeterministic-replay", Detail: det}
							}
							return "", nil, &bfs.Violation{Sig: sig, Detail: det}
						}
					}
					return s.Key(), al, nil
				},
			}
			st, found := bfs.Explore(sp)
			states += st.States
			trans += st.Transitions
			fix = fix && st.Fixpoint
			per = append(per, map[string]any{"front_end": kind, "capacity": capa, "inner_keys": keys, "states": st.States, "transitions": st.Transitions, "depth": st.Depth, "fixpoint": st.Fixpoint, "capped": st.Capped})
			for _, f := range found {
				run.Violation("lru "+f.V.Sig, f.V.Detail+"\nhistory: "+lruh.FormatPath(f.Path), map[string]any{"front_end": kind, "capacity": capa, "keys": keys, "ops": lruh.FormatPath(f.Path), "path": f.Path})
			}
			samples.Add(fmt.Sprintf("%s capacity=%d keys=%d: states=%d transitions=%d depth=%d fixpoint=%v %s", kind, capa, keys, st.States, st.Transitions, st.Depth, st.Fixpoint, st.Capped))
		}
	}
	run.Assume = []string{"values are opaque serial numbers (the cache never inspects them); the state key keeps the recency order of (inner key, creating outer key, expired flag) plus the inner map's node list"}
	run.Finish(ev.Coverage{
		"states": states, "transitions": trans, "traces_validated_against_impl": trans, "samples": samples.List,
		"exhaustive": fix, "fixpoint": fix, "searches": per,
		"rule": "BFS over all call sequences of {GetOrCreate(k) with scripted create outcome ok/fail(/expired item), Remove(k), Clear} for Cache, ECache (two outer keys per inner key) and ExpirableCache, capacities 1..max with capacity+1 keys, to a fixpoint of the canonical state; each transition replays the sequence on a fresh real cache; oracle: reference LRU list + exact ledger of create/delete callback invocations per call",
	})
}
