// C16 - binary decoders are total: arbitrary bytes never panic or over-read.
package main

import (
	"bytes"
	"encoding/binary"
	"fmt"
	"io"
	"os"
	"os/exec"
	"runtime"
	"strings"
	"sync"
	"sync/atomic"
	"syscall"
	"unsafe"

	"github.com/acquirecloud/golibs/xbinary"
	"verifh/internal/ev"
)

type result struct {
	n     int
	err   error
	kind  byte // 'v' scalar, 's' slice, 't' string
	val   uint64
	sl    []byte
	str   string
	width int // fixed width, 0 for varint
}

type decoder struct {
	name   string
	newBuf bool
	f      func(in []byte) result
}

var decoders = []decoder{
	{"UnmarshalByte", false, func(in []byte) result {
		n, v, e := xbinary.UnmarshalByte(in)
		return result{n: n, err: e, kind: 'v', val: uint64(v), width: 1}
	}},
	{"UnmarshalUint16", false, func(in []byte) result {
		n, v, e := xbinary.UnmarshalUint16(in)
		return result{n: n, err: e, kind: 'v', val: uint64(v), width: 2}
	}},
	{"UnmarshalUint32", false, func(in []byte) result {
		n, v, e := xbinary.UnmarshalUint32(in)
		return result{n: n, err: e, kind: 'v', val: uint64(v), width: 4}
	}},
	{"UnmarshalUint64", false, func(in []byte) result {
		n, v, e := xbinary.UnmarshalUint64(in)
		return result{n: n, err: e, kind: 'v', val: v, width: 8}
	}},
	{"UnmarshalUint", false, func(in []byte) result {
		n, v, e := xbinary.UnmarshalUint(in)
		return result{n: n, err: e, kind: 'v', val: uint64(v)}
	}},
	{"UnmarshalBytes(newBuf=false)", false, func(in []byte) result {
		n, v, e := xbinary.UnmarshalBytes(in, false)
		return result{n: n, err: e, kind: 's', sl: v}
	}},
	{"UnmarshalBytes(newBuf=true)", true, func(in []byte) result {
		n, v, e := xbinary.UnmarshalBytes(in, true)
		return result{n: n, err: e, kind: 's', sl: v}
	}},
	{"UnmarshalString(newBuf=false)", false, func(in []byte) result {
		n, v, e := xbinary.UnmarshalString(in, false)
		return result{n: n, err: e, kind: 't', str: v}
	}},
	{"UnmarshalString(newBuf=true)", true, func(in []byte) result {
		n, v, e := xbinary.UnmarshalString(in, true)
		return result{n: n, err: e, kind: 't', str: v}
	}},
}

var (
	run    *ev.Run
	evals  atomic.Int64
	succ   atomic.Int64
	failMu sync.Mutex
	failed = map[string]bool{}
	inputs atomic.Int64
)

func fail(sig string, in []byte, format string, a ...any) {
	failMu.Lock()
	defer failMu.Unlock()
	if failed[sig] || len(failed) > 12 {
		return
	}
	failed[sig] = true
	d := fmt.Sprintf("input %x (len %d): ", in, len(in)) + fmt.Sprintf(format, a...)
	run.Violation(sig, d, map[string]any{"input_hex": fmt.Sprintf("%x", in)})
}

// refVarint decodes a LEB128 value of at most 10 bytes; ok=false if truncated.
func refVarint(in []byte) (n int, v uint64, ok bool) {
	for i, b := range in {
		if i < 10 {
			v |= uint64(b&0x7f) << (7 * uint(i))
		}
		if b < 0x80 {
			return i + 1, v, true
		}
	}
	return 0, 0, false
}

func within(in []byte, p unsafe.Pointer, ln int) bool {
	if ln == 0 {
		return true
	}
	if len(in) == 0 {
		return false
	}
	lo := uintptr(unsafe.Pointer(&in[0]))
	x := uintptr(p)
	return x >= lo && x+uintptr(ln) <= lo+uintptr(len(in))
}

func check(d *decoder, in []byte) {
	evals.Add(1)
	var r result
	panicked := func() (p any) {
		defer func() { p = recover() }()
		r = d.f(in)
		return nil
	}()
	if panicked != nil {
		fail(d.name+" panic", in, "%s panicked: %v", d.name, panicked)
		return
	}
	if r.err != nil {
		if r.n != 0 {
			fail(d.name+" error-n", in, "%s failed (%v) but reported %d bytes consumed", d.name, r.err, r.n)
		}
		return
	}
	succ.Add(1)
	if r.n <= 0 || r.n > len(in) {
		fail(d.name+" n-range", in, "%s succeeded with n=%d for %d input bytes", d.name, r.n, len(in))
		return
	}
	switch r.kind {
	case 'v':
		if r.width > 0 {
			var b [8]byte
			copy(b[8-r.width:], in[:r.width])
			if r.n != r.width || r.val != binary.BigEndian.Uint64(b[:]) {
				fail(d.name+" value", in, "%s returned n=%d v=%#x", d.name, r.n, r.val)
			}
		} else {
			n, v, ok := refVarint(in)
			if !ok || n != r.n || (n <= 9 && v != r.val) {
				fail(d.name+" value", in, "%s returned n=%d v=%#x, reference n=%d v=%#x ok=%v", d.name, r.n, r.val, n, v, ok)
			}
		}
	case 's', 't':
		var p unsafe.Pointer
		var ln int
		var content string
		if r.kind == 's' {
			ln = len(r.sl)
			if ln > 0 {
				p = unsafe.Pointer(&r.sl[0])
			}
			content = string(r.sl)
		} else {
			ln = len(r.str)
			if ln > 0 {
				p = unsafe.Pointer(unsafe.StringData(r.str))
			}
			content = r.str
		}
		if ln > r.n {
			fail(d.name+" len", in, "%s returned %d bytes but consumed only %d", d.name, ln, r.n)
			return
		}
		if content != string(in[r.n-ln:r.n]) {
			fail(d.name+" content", in, "%s returned data that is not input[%d:%d]", d.name, r.n-ln, r.n)
			return
		}
		pn, pv, ok := refVarint(in)
		if !ok || pv != uint64(ln) || pn+ln != r.n {
			fail(d.name+" prefix", in, "%s consumed %d bytes and returned %d, the length prefix says %d (+%d prefix bytes)", d.name, r.n, ln, pv, pn)
			return
		}
		if d.newBuf {
			if ln > 0 && within(in, p, 1) {
				fail(d.name+" alias", in, "%s (newBuf=true) returned memory inside the source buffer", d.name)
			}
			// an empty result must not be a window into the source either: its capacity is what an append would write to
			if r.kind == 's' && ln == 0 && cap(r.sl) > 0 && len(in) > 0 {
				if q := unsafe.Pointer(&r.sl[:1][0]); within(in[:cap(in)], q, 1) {
					fail(d.name+" alias-empty", in, "%s (newBuf=true) returned an empty slice whose capacity (%d) lies inside the source buffer", d.name, cap(r.sl))
				}
			}
		} else if !within(in, p, ln) {
			fail(d.name+" bounds", in, "%s (newBuf=false) returned memory outside the input", d.name)
		}
	}
}

func checkAll(in []byte) {
	inputs.Add(1)
	for i := range decoders {
		check(&decoders[i], in)
	}
}

func par(n int, f func(i int)) {
	var wg sync.WaitGroup
	var next atomic.Int64
	for k := 0; k < runtime.NumCPU(); k++ {
		wg.Add(1)
		go func() {
			defer wg.Done()
			for {
				i := int(next.Add(1)) - 1
				if i >= n {
					return
				}
				f(i)
			}
		}()
	}
	wg.Wait()
}

// enumerate all strings of exactly length ln over alpha, first symbol fixed to alpha[first]
func enum(alpha []byte, ln int, first int, buf []byte, f func([]byte)) {
	in := buf[:ln]
	in[0] = alpha[first]
	idx := make([]int, ln)
	for {
		for i := 1; i < ln; i++ {
			in[i] = alpha[idx[i]]
		}
		f(in)
		k := ln - 1
		for k >= 1 {
			idx[k]++
			if idx[k] < len(alpha) {
				break
			}
			idx[k] = 0
			k--
		}
		if k < 1 {
			return
		}
	}
}

// supervise runs the whole check in a child process with a cap on its address space: a decoder that allocates by an
// untrusted length prefix does not "panic", it takes the process down (the Go runtime's out-of-memory is fatal, or the
// kernel kills it). The supervisor turns the death of the child into a violation instead of a vanished check.
func supervise() {
	exe, _ := os.Executable()
	cmd := exec.Command(exe, os.Args[1:]...)
	cmd.Env = append(os.Environ(), "C16_CHILD=1")
	cmd.Stdout = os.Stdout
	var errb bytes.Buffer
	cmd.Stderr = io.MultiWriter(os.Stderr, &tailWriter{b: &errb, max: 1 << 16})
	err := cmd.Run()
	code := 0
	if err != nil {
		code = 2
		if ee, ok := err.(*exec.ExitError); ok {
			code = ee.ExitCode()
		}
	}
	if code == 0 || code == 1 {
		os.Exit(code)
	}
	tail := errb.String()
	if !strings.Contains(tail, "out of memory") && !strings.Contains(tail, "cannot allocate") && code != -1 && code != 137 {
		fmt.Fprintf(os.Stderr, "INFRASTRUCTURE ERROR: C16 child exited with status %d\n", code)
		os.Exit(2)
	}
	if len(tail) > 3000 {
		tail = tail[:3000]
	}
	run.Violation("decoder-exhausts-memory", fmt.Sprintf("the process running the decoders died (status %d) because a decoder tried to allocate without bound (address space capped at 6 GiB):\n%s", code, tail), nil)
	run.Finish(ev.Coverage{"exhaustive": false, "rule": "the child process that enumerates the inputs died; see the violation"})
}

type tailWriter struct {
	b   *bytes.Buffer
	max int
}

func (w *tailWriter) Write(p []byte) (int, error) {
	if w.b.Len() < w.max {
		w.b.Write(p)
	}
	return len(p), nil
}

func main() {
	run = ev.Parse("C16", "model_checking")
	if os.Getenv("C16_CHILD") == "" && run.Replay == "" {
		supervise()
		return
	}
	if os.Getenv("C16_CHILD") != "" {
		lim := syscall.Rlimit{Cur: 6 << 30, Max: 6 << 30}
		syscall.Setrlimit(syscall.RLIMIT_AS, &lim)
	}
	var samples ev.Samples
	full := make([]byte, 256)
	for i := range full {
		full[i] = byte(i)
	}
	checkAll(nil)
	checkAll([]byte{})
	fullLen := 3
	for ln := 1; ln <= fullLen; ln++ {
		ln := ln
		par(256, func(first int) {
			buf := make([]byte, 16)
			enum(full, ln, first, buf, checkAll)
		})
	}
	samples.Add(fmt.Sprintf("every byte string of length 0..%d over the full alphabet, e.g. 8102ff", fullLen))
	small := []byte{0x00, 0x01, 0x7F, 0x80, 0xFF}
	smallLen := 8
	if run.Thorough() {
		smallLen = 10
	}
	for ln := 1; ln <= smallLen; ln++ {
		ln := ln
		par(len(small), func(first int) {
			buf := make([]byte, 16)
			enum(small, ln, first, buf, checkAll)
		})
	}
	samples.Add(fmt.Sprintf("every byte string of length 1..%d over {00,01,7F,80,FF}", smallLen))
	// adversarial family: n continuation bytes, terminator, short body
	cont := []byte{0x80, 0x81, 0xFF}
	term := []byte{0x00, 0x01, 0x7F}
	bodies := [][]byte{{}, {0x00}, {0xFF}, {0x00, 0x00}, {0xFF, 0xFF}, {0x80, 0x01}}
	maxCont := 11
	for n := 0; n <= maxCont; n++ {
		n := n
		work := func(in0 []byte) {
			for _, t := range term {
				for _, b := range bodies {
					in := append(append(append(make([]byte, 0, 16), in0...), t), b...)
					checkAll(in)
				}
			}
		}
		if n == 0 {
			work(nil)
			continue
		}
		par(len(cont), func(first int) {
			buf := make([]byte, 16)
			enum(cont, n, first, buf, work)
		})
	}
	// very long runs of continuation bytes (shift counters, accumulators): 12..40 equal continuation bytes, terminated or not
	for n := 12; n <= 40; n++ {
		for _, c := range cont {
			run0 := bytes.Repeat([]byte{c}, n)
			checkAll(run0)
			for _, t := range term {
				for _, b := range bodies {
					checkAll(append(append(append(make([]byte, 0, 48), run0...), t), b...))
				}
			}
		}
	}
	samples.Add("adversarial family: 0..11 continuation bytes from {80,81,FF}, terminator from {00,01,7F}, body of 0..2 bytes: reaches length prefixes of 2^31, 2^63, 2^64-1 and over-long varints, e.g. ffffffffffffffffff01 (prefix 2^64-1)")
	// mutated valid encodings: valid byte-string encodings of length 0..40 with the prefix byte replaced by every value and every truncation
	for ln := 0; ln <= 40; ln++ {
		enc := make([]byte, ln+1)
		enc[0] = byte(ln)
		for i := 1; i <= ln; i++ {
			enc[i] = byte(i)
		}
		for cut := 0; cut <= len(enc); cut++ {
			for p := 0; p < 256; p++ {
				in := append([]byte{}, enc[:cut]...)
				if cut > 0 {
					in[0] = byte(p)
				}
				checkAll(in)
				if cut == 0 {
					break
				}
			}
		}
	}
	samples.Add("mutated valid encodings: byte strings of length 0..40, every truncation, prefix byte replaced by every value")
	run.Finish(ev.Coverage{
		"states": inputs.Load(), "transitions": evals.Load(), "traces_validated_against_impl": evals.Load(),
		"evaluations": evals.Load(), "distinct_nontrivial": succ.Load(), "successful_decodes": succ.Load(),
		"samples": samples.List, "exhaustive": true,
		"states_meaning": "states = distinct input byte strings (nodes of the input prefix tree) enumerated; transitions = decoder calls (9 decoders per input) each judged by the oracle",
		"rule":           "exhaustive enumeration of the input prefix tree within the stated lengths/alphabets plus the structured adversarial family; oracle per call: no panic; on success 0 < n <= len(input), fixed-width/varint value equals an independent decode, returned bytes equal input[n-len:n] with len equal to the decoded length prefix and (newBuf=false) lie inside the input buffer by pointer range or (newBuf=true) outside it; on failure n = 0. distinct_nontrivial counts successful decodes",
	})
}
