// C17 - block allocator: no double allocation, disjoint blocks, recoverable state.
package main

import (
	"fmt"
	"os"
	"path/filepath"
	"sort"
	"strings"
	"time"
	"unsafe"

	gbytes "github.com/acquirecloud/golibs/container/bytes"
	gerrors "github.com/acquirecloud/golibs/errors"
	"github.com/acquirecloud/golibs/files"
	"github.com/acquirecloud/golibs/zverif/vsched"
	"github.com/anishathalye/porcupine"
	"verifh/internal/bfs"
	"verifh/internal/deepdump"
	"verifh/internal/ev"
	"verifh/internal/sdrv"
)

var run *ev.Run

func validBS(bs int) bool {
	ps := os.Getpagesize()
	if bs <= 0 {
		return false
	}
	if bs < ps {
		return bs&(bs-1) == 0
	}
	return bs%ps == 0
}

func segSize(bs int) int64 { return int64(bs*8+1) * int64(bs) }

// ---------------------------------------------------------------------------
// part E1: geometry

func geometry() (evals int, accepted int, samples []any) {
	ps := os.Getpagesize()
	seen := map[string]bool{}
	fail := func(sig, detail string, rp map[string]any) {
		if seen[sig] {
			return
		}
		seen[sig] = true
		run.Violation(sig, detail, rp)
	}
	maxSeg := int64(40 << 20)
	if run.Thorough() {
		maxSeg = 300 << 20
	}
	for bs := -2; bs <= 2*ps+1; bs++ {
		var sizes []int64
		if validBS(bs) && segSize(bs) <= maxSeg {
			ss := segSize(bs)
			sizes = []int64{0, 1, ss - 1, ss, ss + 1}
			if 2*ss <= maxSeg {
				sizes = append(sizes, 2*ss, 2*ss+1)
			}
		} else {
			sizes = []int64{0, 1, 64, int64(ps), int64(2*ps + 1)}
			if bs > 0 && segSize(bs) <= 4<<20 {
				sizes = append(sizes, int64(bs)*9, int64(bs)*(int64(bs)*8+1))
			}
		}
		for _, size := range sizes {
			if size > maxSeg*2+1 || size < 0 {
				continue
			}
			for _, fit := range []bool{true, false} {
				evals++
				desc := fmt.Sprintf("blockSize=%d bufferSize=%d fit=%v", bs, size, fit)
				rp := map[string]any{"block_size": bs, "buffer_size": size, "fit": fit}
				wantOK := validBS(bs) && size >= segSize(bs) && (!fit || size%segSize(bs) == 0)
				var b *gbytes.Blocks
				var err error
				p := func() (p any) {
					defer func() { p = recover() }()
					b, err = gbytes.NewBlocks(bs, gbytes.NewInMemBytes(int(size)), fit)
					return nil
				}()
				cls := "invalid-block-size"
				if validBS(bs) {
					cls = "valid-block-size"
				}
				if p != nil {
					k := fmt.Sprint(bs)
					if bs > 8 {
						k = "n"
					}
					fail("geometry panic "+cls+" bs="+k, desc+": NewBlocks panicked: "+fmt.Sprint(p), rp)
					continue
				}
				if !wantOK {
					if err == nil {
						fail("geometry accepted "+cls, fmt.Sprintf("%s: constructor returned an allocator (Count=%d Segments=%d) for a geometry that must be rejected", desc, b.Count(), b.Segments()), rp)
					} else if !gerrors.Is(err, gerrors.ErrInvalid) {
						fail("geometry error-class "+cls, desc+": rejected with "+err.Error()+" instead of ErrInvalid", rp)
					}
					continue
				}
				if err != nil {
					fail("geometry rejected "+cls, desc+": valid geometry rejected: "+err.Error(), rp)
					continue
				}
				accepted++
				segs := int(size / segSize(bs))
				if b.Count() != segs*bs*8 || b.Available() != b.Count() || b.Segments() != segs {
					fail("geometry counts", fmt.Sprintf("%s: Count=%d Available=%d Segments=%d, want %d/%d/%d", desc, b.Count(), b.Available(), b.Segments(), segs*bs*8, segs*bs*8, segs), rp)
					continue
				}
				// fixed script against the set model
				if msg := script(b, bs); msg != "" {
					fail("geometry script", desc+": "+msg, rp)
				}
				if accepted%3 == 1 && len(samples) < 4 {
					samples = append(samples, desc+fmt.Sprintf(" -> accepted, %d blocks", b.Count()))
				}
			}
		}
	}
	return
}

func script(b *gbytes.Blocks, bs int) (msg string) {
	defer func() {
		if r := recover(); r != nil {
			msg = fmt.Sprint("script panicked: ", r)
		}
	}()
	i1, e1 := b.ArrangeBlock()
	i2, e2 := b.ArrangeBlock()
	if e1 != nil || e2 != nil || i1 == i2 {
		return fmt.Sprintf("two allocations gave %d/%v and %d/%v", i1, e1, i2, e2)
	}
	blk, err := b.Block(i2)
	if err != nil || len(blk) != bs {
		return fmt.Sprintf("Block(%d) = len %d err %v", i2, len(blk), err)
	}
	for i := range blk {
		blk[i] = 0xFF
	}
	if b.Available() != b.Count()-2 {
		return fmt.Sprintf("Available=%d after two allocations of %d", b.Available(), b.Count())
	}
	if err := b.FreeBlock(i1); err != nil {
		return fmt.Sprintf("FreeBlock(%d): %v", i1, err)
	}
	if err := b.FreeBlock(i1); err == nil {
		return "double free accepted"
	}
	i3, e3 := b.ArrangeBlock()
	if e3 != nil || i3 == i2 {
		return fmt.Sprintf("third allocation gave %d/%v while %d is allocated", i3, e3, i2)
	}
	if b.FreeBlock(b.Count()) == nil || b.FreeBlock(-1) == nil {
		return "FreeBlock out of range accepted"
	}
	return ""
}

// bigGeometry: block sizes that are page multiples but no powers of two (3, 5 pages) have a number of blocks per segment
// that is no power of two either; with tens of thousands of live blocks every index computation is exercised beyond the
// first 32768 / 65536 indexes. The backing array is 1-3 GiB of untouched (lazily mapped) zero memory.
func bigGeometry() (cases int) {
	ps := os.Getpagesize()
	for _, pages := range []int{3, 5} {
		bs := pages * ps
		func() {
			defer func() {
				if r := recover(); r != nil {
					run.Violation("geometry big panic", fmt.Sprintf("block size %d: %v", bs, r), map[string]any{"blockSize": bs})
				}
			}()
			buf := gbytes.NewInMemBytes(int(segSize(bs)))
			b, err := gbytes.NewBlocks(bs, buf, true)
			if err != nil {
				run.Violation("geometry big rejected", fmt.Sprintf("block size %d (%d pages) over one full segment was rejected: %v", bs, pages, err), nil)
				return
			}
			n := 70000
			if n > b.Count() {
				n = b.Count()
			}
			got := make(map[int]bool, n)
			for i := 0; i < n; i++ {
				k, err := b.ArrangeBlock()
				if err != nil || k < 0 || k >= b.Count() || got[k] {
					run.Violation("geometry big double-allocation", fmt.Sprintf("block size %d: allocation #%d returned %d (err %v, handed out before: %v)", bs, i, k, err, got[k]), map[string]any{"blockSize": bs})
					return
				}
				got[k] = true
			}
			var freed []int
			for _, k := range []int{0, 7, 8, 4095, 4096, 32767, 32768, 32775, 65535, 65536, n - 1} {
				if !got[k] {
					continue
				}
				if err := b.FreeBlock(k); err != nil {
					run.Violation("geometry big free", fmt.Sprintf("block size %d: FreeBlock(%d) of an allocated block: %v", bs, k, err), map[string]any{"blockSize": bs})
					return
				}
				if err := b.FreeBlock(k); err == nil {
					run.Violation("geometry big double-free", fmt.Sprintf("block size %d: second FreeBlock(%d) accepted", bs, k), map[string]any{"blockSize": bs})
					return
				}
				freed = append(freed, k)
				delete(got, k)
			}
			if b.Available() != b.Count()-len(got) {
				run.Violation("geometry big available", fmt.Sprintf("block size %d: Available=%d with %d of %d blocks held", bs, b.Available(), len(got), b.Count()), map[string]any{"blockSize": bs})
				return
			}
			back := map[int]bool{}
			for range freed {
				k, err := b.ArrangeBlock()
				if err != nil || got[k] || back[k] {
					run.Violation("geometry big double-allocation", fmt.Sprintf("block size %d: after freeing %v ArrangeBlock returned %d (err %v) which is held", bs, freed, k, err), map[string]any{"blockSize": bs})
					return
				}
				back[k] = true
			}
			cases++
		}()
	}
	return
}

// ---------------------------------------------------------------------------
// part E2: disjointness of block ranges and headers

func disjoint() (pairs int) {
	for _, bs := range []int{1, 2, 4} {
		for segs := 1; segs <= 3; segs++ {
			size := int(segSize(bs)) * segs
			buf := gbytes.NewInMemBytes(size)
			b, err := gbytes.NewBlocks(bs, buf, true)
			if err != nil {
				run.Violation("disjoint new", err.Error(), nil)
				continue
			}
			all, _ := buf.Buffer(0, size)
			base := uintptr(unsafe.Pointer(&all[0]))
			type rng struct{ lo, hi uintptr }
			var rs []rng
			for s := 0; s < segs; s++ {
				lo := uintptr(int64(s) * segSize(bs))
				rs = append(rs, rng{lo, lo + uintptr(bs)}) // header
			}
			hdrs := len(rs)
			for i := 0; i < b.Count(); i++ {
				blk, err := b.Block(i)
				if err != nil || len(blk) != bs {
					run.Violation("disjoint block", fmt.Sprintf("bs=%d segs=%d Block(%d): len=%d err=%v", bs, segs, i, len(blk), err), map[string]any{"bs": bs, "segs": segs, "idx": i})
					continue
				}
				lo := uintptr(unsafe.Pointer(&blk[0])) - base
				rs = append(rs, rng{lo, lo + uintptr(bs)})
			}
			for i := range rs {
				for j := i + 1; j < len(rs); j++ {
					pairs++
					if rs[i].lo < rs[j].hi && rs[j].lo < rs[i].hi {
						what := "two blocks"
						if i < hdrs {
							what = "a block and a header"
						}
						run.Violation("disjoint overlap", fmt.Sprintf("bs=%d segs=%d: %s overlap: ranges [%d,%d) and [%d,%d) (entries %d,%d; first %d are headers)", bs, segs, what, rs[i].lo, rs[i].hi, rs[j].lo, rs[j].hi, i, j, hdrs), map[string]any{"bs": bs, "segs": segs})
					}
				}
			}
			if _, err := b.Block(b.Count()); err == nil {
				run.Violation("disjoint out-of-range", fmt.Sprintf("bs=%d segs=%d: Block(Count) succeeded", bs, segs), nil)
			}
			if _, err := b.Block(-1); err == nil {
				run.Violation("disjoint out-of-range", fmt.Sprintf("bs=%d segs=%d: Block(-1) succeeded", bs, segs), nil)
			}
		}
	}
	return
}

// ---------------------------------------------------------------------------
// part Q: sequential alloc/free histories to a fixpoint, reopen after every op

type op struct {
	K byte // A arrange, F free, B block
	I int
}

func (o op) String() string {
	if o.K == 'A' {
		return "Arrange"
	}
	return fmt.Sprintf("%c(%d)", o.K, o.I)
}

type sys struct {
	bs, segs int
	buf      gbytes.Buffer
	b        *gbytes.Blocks
	alloc    map[int]bool
}

func newSys(bs, segs int) *sys {
	buf := gbytes.NewInMemBytes(int(segSize(bs)) * segs)
	b, err := gbytes.NewBlocks(bs, buf, true)
	if err != nil {
		panic(err)
	}
	return &sys{bs: bs, segs: segs, buf: buf, b: b, alloc: map[int]bool{}}
}

func (s *sys) bytes() []byte {
	all, _ := s.buf.Buffer(0, int(s.buf.Size()))
	return all
}

// reopenCheck opens a second allocator on a copy of the bytes and compares its state with want.
func reopenCheck(bs int, data []byte, want map[int]bool, count int) string {
	cp := gbytes.NewInMemBytes(len(data))
	dst, _ := cp.Buffer(0, len(data))
	copy(dst, data)
	b2, err := gbytes.NewBlocks(bs, cp, true)
	if err != nil {
		return "reopen failed: " + err.Error()
	}
	if b2.Available() != count-len(want) {
		return fmt.Sprintf("reopened allocator reports Available=%d, %d blocks are allocated of %d", b2.Available(), len(want), count)
	}
	if len(want) < count {
		i, err := b2.ArrangeBlock()
		if err != nil || want[i] {
			return fmt.Sprintf("reopened allocator hands out %d (err %v) which is allocated", i, err)
		}
		if err := b2.FreeBlock(i); err != nil {
			return fmt.Sprintf("reopened allocator cannot free the block %d it just handed out: %v", i, err)
		}
	} else if _, err := b2.ArrangeBlock(); err == nil {
		return "reopened allocator hands out a block although every block is allocated"
	}
	// a third allocator on another copy is drained: it must hand out exactly the free blocks, each once, and then be exhausted
	cp3 := gbytes.NewInMemBytes(len(data))
	dst3, _ := cp3.Buffer(0, len(data))
	copy(dst3, data)
	if b3, err := gbytes.NewBlocks(bs, cp3, true); err == nil {
		got := map[int]bool{}
		for n := 0; n < count-len(want); n++ {
			i, err := b3.ArrangeBlock()
			if err != nil {
				return fmt.Sprintf("reopened allocator is exhausted (%v) after handing out %d of its %d free blocks, Available()=%d", err, n, count-len(want), b3.Available())
			}
			if want[i] || got[i] || i < 0 || i >= count {
				return fmt.Sprintf("reopened allocator hands out %d while draining (allocated before: %v, handed out twice: %v)", i, want[i], got[i])
			}
			got[i] = true
		}
		if i, err := b3.ArrangeBlock(); err == nil {
			return fmt.Sprintf("reopened and drained allocator still hands out %d", i)
		}
		if b3.Available() != 0 {
			return fmt.Sprintf("reopened and drained allocator reports Available=%d", b3.Available())
		}
	}
	// probe the allocated set: FreeBlock succeeds exactly on allocated blocks (each probe touches its own bit only)
	for i := 0; i < count; i++ {
		err := b2.FreeBlock(i)
		if want[i] && err != nil {
			return fmt.Sprintf("reopened allocator does not know allocated block %d (%v)", i, err)
		}
		if !want[i] && err == nil {
			return fmt.Sprintf("reopened allocator believes free block %d is allocated", i)
		}
	}
	return ""
}

func (s *sys) apply(o op) (sig, detail string) {
	defer func() {
		if r := recover(); r != nil {
			sig, detail = "seq panic "+string(o.K), fmt.Sprintf("%v panicked: %v", o, r)
		}
	}()
	count := s.b.Count()
	switch o.K {
	case 'A':
		i, err := s.b.ArrangeBlock()
		if len(s.alloc) == count {
			if err == nil || !gerrors.Is(err, gerrors.ErrExhausted) {
				return "seq arrange-full", fmt.Sprintf("ArrangeBlock on a full allocator returned (%d,%v), want ErrExhausted", i, err)
			}
		} else {
			if err != nil {
				return "seq arrange-err", fmt.Sprintf("ArrangeBlock returned %v with %d of %d allocated", err, len(s.alloc), count)
			}
			if i < 0 || i >= count {
				return "seq arrange-range", fmt.Sprintf("ArrangeBlock returned index %d outside [0,%d)", i, count)
			}
			if s.alloc[i] {
				return "seq double-allocation", fmt.Sprintf("ArrangeBlock handed out index %d which is still allocated (allocated=%v)", i, keysOf(s.alloc))
			}
			s.alloc[i] = true
			blk, err := s.b.Block(i)
			if err != nil || len(blk) != s.bs {
				return "seq block", fmt.Sprintf("Block(%d) after allocation: len=%d err=%v", i, len(blk), err)
			}
			for k := range blk {
				blk[k] = 0xFF // worst content: would set header bits if ranges overlapped
			}
		}
	case 'F':
		err := s.b.FreeBlock(o.I)
		switch {
		case o.I < 0 || o.I >= count:
			if err == nil || !gerrors.Is(err, gerrors.ErrInvalid) {
				return "seq free-range", fmt.Sprintf("FreeBlock(%d) out of range returned %v, want ErrInvalid", o.I, err)
			}
		case s.alloc[o.I]:
			if err != nil {
				return "seq free-err", fmt.Sprintf("FreeBlock(%d) of an allocated block returned %v", o.I, err)
			}
			delete(s.alloc, o.I)
		default:
			if err == nil {
				return "seq double-free", fmt.Sprintf("FreeBlock(%d) of a free block returned nil", o.I)
			}
		}
	case 'B':
		blk, err := s.b.Block(o.I)
		if o.I < 0 || o.I >= count {
			if err == nil {
				return "seq block-range", fmt.Sprintf("Block(%d) out of range succeeded", o.I)
			}
		} else if err != nil || len(blk) != s.bs {
			return "seq block", fmt.Sprintf("Block(%d): len=%d err=%v", o.I, len(blk), err)
		}
	}
	if s.b.Available() != count-len(s.alloc) {
		return "seq available", fmt.Sprintf("after %v Available()=%d, Count=%d, allocated=%d", o, s.b.Available(), count, len(s.alloc))
	}
	// headers must show exactly the model
	data := s.bytes()
	for i := 0; i < count; i++ {
		seg := i / (s.bs * 8)
		bit := i % (s.bs * 8)
		hb := data[int64(seg)*segSize(s.bs)+int64(bit/8)]
		set := hb&(1<<uint(bit%8)) != 0
		if set != s.alloc[i] {
			return "seq header", fmt.Sprintf("after %v header bit of block %d is %v, model allocated=%v", o, i, set, s.alloc[i])
		}
	}
	if msg := reopenCheck(s.bs, data, s.alloc, count); msg != "" {
		return "seq reopen", fmt.Sprintf("after %v: %s", o, msg)
	}
	return "", ""
}

func keysOf(m map[int]bool) []int {
	var k []int
	for i := range m {
		k = append(k, i)
	}
	sort.Ints(k)
	return k
}

func (s *sys) key() string {
	_, _, _, freeIdx := gbytes.VerifBlocksState(s.b)
	data := s.bytes()
	var sb strings.Builder
	for seg := 0; seg < s.segs; seg++ {
		off := int64(seg) * segSize(s.bs)
		fmt.Fprintf(&sb, "%x|", data[off:off+int64(s.bs)])
	}
	fmt.Fprintf(&sb, "f%d", freeIdx)
	// every field the allocator object has (counters, hints, whatever a change may add)
	sb.WriteString("|" + deepdump.Dump(s.b, deepdump.Options{}))
	return sb.String()
}

func sequential() (states int, trans int64, fix bool, samples []any) {
	type g struct{ bs, segs int }
	gs := []g{{1, 1}, {1, 2}}
	if run.Thorough() {
		gs = append(gs, g{2, 1})
	}
	fix = true
	for _, ge := range gs {
		ge := ge
		count := ge.bs * 8 * ge.segs
		var al []op
		al = append(al, op{'A', 0})
		for i := -1; i <= count; i++ {
			al = append(al, op{'F', i})
		}
		al = append(al, op{'B', -1}, op{'B', 0}, op{'B', count - 1}, op{'B', count})
		sp := bfs.Spec[op]{
			Run: func(path []op) (string, []op, *bfs.Violation) {
				s := newSys(ge.bs, ge.segs)
				for _, o := range path {
					if sig, det := s.apply(o); sig != "" {
						return "", nil, &bfs.Violation{Sig: sig, Detail: fmt.Sprintf("blockSize=%d segments=%d: %s", ge.bs, ge.segs, det)}
					}
				}
				return s.key(), al, nil
			},
		}
		st, found := bfs.Explore(sp)
		states += st.States
		trans += st.Transitions
		fix = fix && st.Fixpoint
		for _, f := range found {
			run.Violation(f.V.Sig, f.V.Detail+fmt.Sprintf("\nhistory: %v", f.Path), map[string]any{"bs": ge.bs, "segs": ge.segs, "ops": fmt.Sprint(f.Path)})
		}
		samples = append(samples, fmt.Sprintf("sequential BFS blockSize=%d segments=%d: states=%d transitions=%d depth=%d fixpoint=%v (reopen + probe after every transition)", ge.bs, ge.segs, st.States, st.Transitions, st.Depth, st.Fixpoint))
	}
	return
}

// sequentialFrom: geometries whose full state space is out of reach (block size >= 2 with 2-3 segments: 2^32 and more
// header states) are explored to a depth bound from two non-initial states - every block allocated, and the first
// segment allocated - over {Arrange, Free of the first two blocks of every header byte of every segment}.  This is
// where a free hint that mixes segment-relative and absolute positions shows (seed C17-L).
func sequentialFrom() (states int, trans int64, samples []any) {
	type g struct{ bs, segs, depth int }
	gs := []g{{2, 2, 4}, {2, 3, 4}}
	if run.Thorough() {
		gs = []g{{2, 2, 6}, {2, 3, 5}, {4, 2, 5}, {4, 3, 4}}
	}
	for _, ge := range gs {
		ge := ge
		count := ge.bs * 8 * ge.segs
		al := []op{{'A', 0}}
		for seg := 0; seg < ge.segs; seg++ {
			for hb := 0; hb < ge.bs; hb++ {
				base := seg*ge.bs*8 + hb*8
				al = append(al, op{'F', base}, op{'F', base + 1})
			}
		}
		for _, fill := range []int{count, ge.bs * 8} {
			fill := fill
			sp := bfs.Spec[op]{
				MaxDepth: ge.depth,
				Run: func(path []op) (string, []op, *bfs.Violation) {
					s := newSys(ge.bs, ge.segs)
					for i := 0; i < fill; i++ {
						if sig, det := s.apply(op{'A', 0}); sig != "" {
							return "", nil, &bfs.Violation{Sig: sig, Detail: fmt.Sprintf("blockSize=%d segments=%d, filling: %s", ge.bs, ge.segs, det)}
						}
					}
					for _, o := range path {
						if sig, det := s.apply(o); sig != "" {
							return "", nil, &bfs.Violation{Sig: sig, Detail: fmt.Sprintf("blockSize=%d segments=%d after %d allocations: %s", ge.bs, ge.segs, fill, det)}
						}
					}
					return s.key(), al, nil
				},
			}
			st, found := bfs.Explore(sp)
			states += st.States
			trans += st.Transitions
			for _, f := range found {
				run.Violation(f.V.Sig, f.V.Detail+fmt.Sprintf("\nhistory after %d allocations: %v", fill, f.Path), map[string]any{"bs": ge.bs, "segs": ge.segs, "prefill": fill, "ops": fmt.Sprint(f.Path)})
			}
			samples = append(samples, fmt.Sprintf("sequential BFS from a non-initial state (blockSize=%d segments=%d, %d blocks allocated first): states=%d transitions=%d depth=%d (bound %d) over %d operations", ge.bs, ge.segs, fill, st.States, st.Transitions, st.Depth, ge.depth, len(al)))
		}
	}
	return
}

// ---------------------------------------------------------------------------
// part M: depth-bounded exhaustive sequences over a real memory-mapped file, reopened by path

func mmfile() (seqs int, samples []any) {
	dir, err := os.MkdirTemp("", "verif-c17-")
	if err != nil {
		ev.Infra("%v", err)
	}
	defer os.RemoveAll(dir)
	depth := 3
	if run.Thorough() {
		depth = 4
	}
	ops := []op{{'A', 0}, {'F', 0}, {'F', 1}, {'F', 2}}
	var rec func(path []op)
	no := 0
	rec = func(path []op) {
		if len(path) > 0 {
			no++
			fn := filepath.Join(dir, fmt.Sprintf("f%d", no))
			mf, err := files.NewMMFile(fn, 4096)
			if err != nil {
				ev.Infra("mmfile: %v", err)
			}
			b, err := gbytes.NewBlocks(1, mf, false)
			if err != nil {
				run.Violation("mmfile new", err.Error(), nil)
				return
			}
			alloc := map[int]bool{}
			for _, o := range path {
				if o.K == 'A' {
					i, err := b.ArrangeBlock()
					if err != nil || alloc[i] {
						run.Violation("mmfile double-allocation", fmt.Sprintf("history %v: ArrangeBlock gave %d/%v", path, i, err), map[string]any{"ops": fmt.Sprint(path)})
						return
					}
					alloc[i] = true
				} else {
					err := b.FreeBlock(o.I)
					if alloc[o.I] != (err == nil) {
						run.Violation("mmfile free", fmt.Sprintf("history %v: FreeBlock(%d) = %v, allocated=%v", path, o.I, err, alloc[o.I]), map[string]any{"ops": fmt.Sprint(path)})
						return
					}
					delete(alloc, o.I)
				}
			}
			count := b.Count()
			b.Close()
			// reopen by path
			mf2, err := files.NewMMFile(fn, -1)
			if err != nil {
				ev.Infra("mmfile reopen: %v", err)
			}
			b2, err := gbytes.NewBlocks(1, mf2, false)
			if err != nil {
				run.Violation("mmfile reopen", err.Error(), nil)
				return
			}
			if b2.Available() != count-len(alloc) {
				run.Violation("mmfile reopen-available", fmt.Sprintf("history %v: reopened file reports Available=%d, want %d", path, b2.Available(), count-len(alloc)), map[string]any{"ops": fmt.Sprint(path)})
			}
			for i := 0; i < 6; i++ {
				err := b2.FreeBlock(i)
				if alloc[i] != (err == nil) {
					run.Violation("mmfile reopen-set", fmt.Sprintf("history %v: after reopening by path block %d allocated=%v but FreeBlock says %v", path, i, alloc[i], err), map[string]any{"ops": fmt.Sprint(path)})
				}
			}
			b2.Close()
			os.Remove(fn)
			seqs++
		}
		if len(path) == depth {
			return
		}
		for _, o := range ops {
			rec(append(path[:len(path):len(path)], o))
		}
	}
	rec(nil)
	samples = append(samples, fmt.Sprintf("memory-mapped file: all %d sequences of length <= %d over {Arrange, Free(0), Free(1), Free(2)} on a 4096-byte MMFile, closed and reopened by path, allocated set compared", seqs, depth))
	return
}

// ---------------------------------------------------------------------------
// part S: concurrent allocation / free under the controlled scheduler

func concJob(progs []string, segs int, cfg vsched.Config) sdrv.Job {
	type hop struct {
		kind      byte // A F
		idx       int  // A: index handed out (-1: exhausted); F: index freed
		call, ret int64
		thread    int
	}
	type obsT struct {
		problem string
		final   string
		hist    []hop
		init    uint32 // bit set = allocated before the threads start
	}
	obs := &obsT{}
	name := fmt.Sprintf("segments=%d threads=%s P=%d", segs, strings.Join(progs, "|"), cfg.P)
	scenario := func() {
		*obs = obsT{}
		const bs = 1
		buf := gbytes.NewInMemBytes(int(segSize(bs)) * segs)
		b, err := gbytes.NewBlocks(bs, buf, true)
		if err != nil {
			panic(err)
		}
		// pre-allocate all but two blocks so that threads collide on the last two (with 2 segments the first
		// segment is full and the free hint points into the second one; frees hit the first segment)
		pre := map[int]bool{}
		for i := 0; i < 8*segs-2; i++ {
			k, _ := b.ArrangeBlock()
			pre[k] = true
		}
		// model: definite owners, number of FreeBlock calls in flight per index, number of ArrangeBlock calls in flight
		owner := map[int]int{} // index -> owner thread (+1); 100 = pre-allocated, not owned by a thread yet
		for k := range pre {
			owner[k] = 100
			obs.init |= 1 << uint(k)
		}
		var tick int64
		now := func() int64 { tick++; return tick }
		freeing := map[int]int{}
		inflightAlloc := 0
		done := make([]bool, len(progs))
		crash := func(where string) {
			// crash point: reopen a copy of the bytes. Every block with a definite owner must be allocated, every block
			// that is definitely free must be free; operations in flight may be on either side.
			if obs.problem != "" {
				return
			}
			// the byte snapshot and the snapshot of the model are taken in one step (no scheduling point in between);
			// everything after that works on private copies, so it does not matter if this thread is preempted
			live, _ := buf.Buffer(0, int(buf.Size()))
			cp := gbytes.NewInMemBytes(len(live))
			all, _ := cp.Buffer(0, len(live))
			copy(all, live)
			ownerSnap := map[int]int{}
			for k, v := range owner {
				ownerSnap[k] = v
			}
			freeSnap := map[int]int{}
			for k, v := range freeing {
				freeSnap[k] = v
			}
			allocInFlight := inflightAlloc
			b2, err := gbytes.NewBlocks(bs, cp, true)
			if err != nil {
				obs.problem = "crash-reopen: " + err.Error()
				return
			}
			allocated := 0
			for i := 0; i < b2.Count(); i++ {
				hb := all[int64(i/8)*segSize(bs)+int64(i%8)/8]
				if hb&(1<<uint(i%8)) != 0 {
					allocated++
					if _, ok := ownerSnap[i]; !ok && allocInFlight == 0 && freeSnap[i] == 0 {
						obs.problem = fmt.Sprintf("crash point %s: block %d is marked allocated in the bytes but nobody holds it and no operation on it is in flight", where, i)
					}
				} else if _, ok := ownerSnap[i]; ok {
					obs.problem = fmt.Sprintf("crash point %s: block %d is held by a caller but free in the bytes", where, i)
				}
			}
			if b2.Available() != b2.Count()-allocated {
				obs.problem = fmt.Sprintf("crash point %s: reopened Available=%d with %d header bits set", where, b2.Available(), allocated)
			}
		}
		for t, prog := range progs {
			t, prog := t, prog
			vsched.GoNamed(fmt.Sprintf("t%d", t), func() {
				defer func() { done[t] = true }()
				var mine []int
				for _, c := range prog {
					switch c {
					case 'A':
						inflightAlloc++
						c0 := now()
						i, err := b.ArrangeBlock()
						inflightAlloc--
						if err != nil {
							obs.hist = append(obs.hist, hop{'A', -1, c0, now(), t})
							vsched.Note("t%d arrange -> exhausted", t)
							continue
						}
						obs.hist = append(obs.hist, hop{'A', i, c0, now(), t})
						vsched.Note("t%d arrange -> %d", t, i)
						// (a block whose FreeBlock call is still in flight has no owner any more: it may be handed out again)
						if o, ok := owner[i]; ok && obs.problem == "" {
							obs.problem = fmt.Sprintf("index %d handed out to t%d while still held by owner %d", i, t, o-1)
						}
						owner[i] = t + 1
						mine = append(mine, i)
						blk, _ := b.Block(i)
						for k := range blk {
							blk[k] = 0xFF
						}
					case 'F':
						// free own earlier block, or a pre-allocated one if none
						var i int
						if len(mine) > 0 {
							i = mine[0]
							mine = mine[1:]
						} else {
							i = -1
							for k := 0; k < 8*segs; k++ {
								if owner[k] == 100 {
									i = k
									break
								}
							}
							if i < 0 {
								continue
							}
						}
						delete(owner, i) // ownership ends with the call; the free takes effect somewhere inside it
						freeing[i]++
						c0 := now()
						err := b.FreeBlock(i)
						freeing[i]--
						obs.hist = append(obs.hist, hop{'F', i, c0, now(), t})
						vsched.Note("t%d free %d -> %v", t, i, err)
						if err != nil && obs.problem == "" {
							obs.problem = fmt.Sprintf("FreeBlock(%d) of a held block returned %v", i, err)
						}
					}
					vsched.Point(vsched.KEnv, "crash", nil)
					crash(fmt.Sprintf("t%d after %c", t, c))
				}
			})
		}
		vsched.WaitFor("threads", func() bool {
			for _, d := range done {
				if !d {
					return false
				}
			}
			return true
		})
		if obs.problem == "" {
			n := len(owner)
			if b.Available() != b.Count()-n {
				obs.problem = fmt.Sprintf("at quiescence Available()=%d but %d of %d blocks are held", b.Available(), n, b.Count())
			}
			crash("quiescence")
		}
		obs.final = fmt.Sprint(b.Available())
	}
	return sdrv.Job{Name: name, Cfg: cfg, Scenario: scenario, Check: func(x *vsched.Exec) (string, *vsched.Violation) {
		if len(x.Panics) > 0 {
			return "panic", &vsched.Violation{Sig: "conc panic", Detail: x.Panics[0]}
		}
		if x.Outcome != vsched.Completed {
			return x.Outcome.String(), &vsched.Violation{Sig: "conc " + x.Outcome.String(), Detail: fmt.Sprintf("threads did not finish: %v", x.Blocked)}
		}
		if obs.problem == "" {
			// the recorded call/return history must be a history of a sequential allocator: ArrangeBlock hands out a block
			// that is free at its linearisation point and reports exhaustion only if none is, FreeBlock frees an allocated one
			var pops []porcupine.Operation
			for k, h := range obs.hist {
				pops = append(pops, porcupine.Operation{ClientId: h.thread, Input: k, Call: h.call, Output: k, Return: h.ret})
			}
			full := uint32(1)<<uint(8*segs) - 1
			model := porcupine.Model{
				Init: func() interface{} { return obs.init },
				Step: func(state, input, output interface{}) (bool, interface{}) {
					st := state.(uint32)
					h := obs.hist[input.(int)]
					switch {
					case h.kind == 'A' && h.idx < 0:
						return st == full, st
					case h.kind == 'A':
						return st&(1<<uint(h.idx)) == 0, st | 1<<uint(h.idx)
					default:
						return st&(1<<uint(h.idx)) != 0, st &^ (1 << uint(h.idx))
					}
				},
			}
			if !porcupine.CheckOperations(model, pops) {
				var ls []string
				for _, h := range obs.hist {
					ls = append(ls, fmt.Sprintf("t%d %c(%d) [%d,%d]", h.thread, h.kind, h.idx, h.call, h.ret))
				}
				return "violation", &vsched.Violation{Sig: "conc not-linearizable", Detail: "no sequential allocator explains the history (A(-1) = exhausted): " + strings.Join(ls, "; ") + "\nnotes: " + strings.Join(x.Notes, " / ")}
			}
		}
		if obs.problem != "" {
			sig := "conc " + strings.SplitN(obs.problem, ":", 2)[0]
			if strings.Contains(obs.problem, "handed out") {
				sig = "conc double-allocation"
			} else if strings.Contains(obs.problem, "crash point") {
				sig = "conc crash-consistency"
			} else if strings.Contains(obs.problem, "quiescence") {
				sig = "conc available"
			}
			return "violation", &vsched.Violation{Sig: sig, Detail: obs.problem + "\nnotes: " + strings.Join(x.Notes, " / ")}
		}
		return "available=" + obs.final, nil
	}}
}

func main() {
	run = ev.Parse("C17", "model_checking")
	opt := sdrv.Options{Budget: 5 * time.Minute}
	if !run.IsWorker() && run.Replay == "" {
		t0 := time.Now()
		ge, acc, gs := geometry()
		ge += bigGeometry()
		t1 := time.Now()
		pairs := disjoint()
		st, tr, fix, ss := sequential()
		st2, tr2, ss2 := sequentialFrom()
		st, tr, ss = st+st2, tr+tr2, append(ss, ss2...)
		t2 := time.Now()
		ms, msam := mmfile()
		fmt.Printf("C17 parts: geometry %.1fs, disjoint+sequential %.1fs, mmfile %.1fs\n", t1.Sub(t0).Seconds(), t2.Sub(t1).Seconds(), time.Since(t2).Seconds())
		opt.AddStates = int64(st)
		opt.AddTransitions = tr + int64(ge) + int64(pairs)
		opt.AddTraces = tr + int64(ms)
		opt.ExtraSamples = append(append(append(opt.ExtraSamples, gs...), ss...), msam...)
		opt.NotExhaustive = !fix
		opt.Extra = map[string]any{"geometry_cases": ge, "geometry_accepted": acc, "disjointness_pairs": pairs, "sequential_states": st, "sequential_transitions": tr, "sequential_fixpoint": fix, "mmfile_sequences": ms}
	}
	fine := vsched.Mask(vsched.KLock, vsched.KAtomic, vsched.KEnv, vsched.KStep)
	var jobs []sdrv.Job
	P := 3
	two := []string{"A", "F", "AA", "AF", "FA", "FF", "AFA", "AAA"}
	for _, a := range two {
		for _, b := range two {
			jobs = append(jobs, concJob([]string{a, b}, 1, vsched.Config{P: P, Preempt: fine, MaxSteps: 4000}))
			jobs = append(jobs, concJob([]string{a, b}, 2, vsched.Config{P: P - 1, Preempt: fine, MaxSteps: 4000}))
		}
	}
	three := []string{"A", "F", "AF"}
	if run.Thorough() {
		three = []string{"A", "F", "AF", "FA", "AA"}
	}
	for _, a := range three {
		for _, b := range three {
			for _, c := range three {
				jobs = append(jobs, concJob([]string{a, b, c}, 1, vsched.Config{P: 2, Preempt: fine, MaxSteps: 4000}))
			}
		}
	}
	opt.Rule = "E: every block size in [-2, 2*pagesize+1] x buffer sizes {0, 1, segment-1, segment, segment+1, 2 segments, 2 segments+1} x fit flag: accepted iff valid, else ErrInvalid, never a panic, accepted allocators run a fixed script; all index pairs for block sizes 1,2,4 x 1..3 segments: ranges pairwise disjoint and disjoint from headers. Q: BFS over all histories of {ArrangeBlock, FreeBlock(-1..Count), Block(i)} on tiny geometries to a fixpoint of (header bytes, free hint); after every transition the bytes are copied, a second allocator is opened on the copy and probed; block sizes 2 and 4 with 2-3 segments (state space out of reach) are searched to a depth bound from two non-initial states (all blocks / the first segment allocated) over Arrange and Free of the first two blocks of every header byte. M: all short sequences over a real memory-mapped file reopened by path. S: 2-3 threads x 1-3 ops {Arrange, Free} colliding on the last two free blocks (incl. allocation beyond exhaustion), the recorded call/return history must be linearizable against a sequential allocator (porcupine), every schedule within the preemption bound with points at the mutex, atomics (and statement steps in the thorough tier); crash point (copy + reopen) after every operation of every schedule"
	opt.Bounds = map[string]any{"P_two_threads": P, "P_three_threads": 2}
	sdrv.Main(run, jobs, opt)
}
