// C12 - timers: never early, at most once, cancel is effective and precise.
package main

import (
	"bytes"
	"fmt"
	"math"
	"sort"
	"strings"
	"time"

	"github.com/acquirecloud/golibs/zverif/vsched"
	"verifh/internal/ev"
	"verifh/internal/sdrv"
	"verifh/internal/tmh"
)

const ms = time.Millisecond

// never is the usual spelling of "no timeout": the largest duration. call time + never must not wrap.
const never = time.Duration(math.MaxInt64)

func due(f tmh.FObs) time.Duration {
	d := f.CallAt + f.Delay
	if f.Delay > 0 && d < f.CallAt {
		return never
	}
	return d
}

func judge(sc tmh.Script, obs *tmh.Obs, x *vsched.Exec) (string, *vsched.Violation) {
	ctxt := "\nscript: " + sc.String() + "\nnotes: " + strings.Join(x.Notes, " / ")
	if len(x.Panics) > 0 {
		return "panic", &vsched.Violation{Sig: "panic", Detail: x.Panics[0] + ctxt}
	}
	if x.Outcome != vsched.Completed || !obs.Done {
		return x.Outcome.String(), &vsched.Violation{Sig: "no-quiescence " + x.Outcome.String(), Detail: fmt.Sprintf("the execution did not reach quiescence (%s), blocked: %v", x.Outcome, x.Blocked) + ctxt}
	}
	var oc []string
	for i, f := range obs.F {
		if !f.Called {
			continue
		}
		if len(f.Starts) > 1 {
			return "v", &vsched.Violation{Sig: "started-twice", Detail: fmt.Sprintf("future #%d (delay %v) was started %d times at %v", i, f.Delay, len(f.Starts), f.Starts) + ctxt}
		}
		for _, s := range f.Starts {
			if s < due(f) {
				return "v", &vsched.Violation{Sig: "started-early", Detail: fmt.Sprintf("future #%d scheduled at +%v with delay %v was started at +%v, %v too early", i, f.CallAt, f.Delay, s, due(f)-s) + ctxt}
			}
		}
		if sc.MaxLate > 0 {
			for _, s := range f.Starts {
				if s-due(f) > sc.MaxLate {
					return "v", &vsched.Violation{Sig: "started-late", Detail: fmt.Sprintf("future #%d (due at +%v) was started at +%v, %v late, although every callback returns at once: a Cancel of another future disturbed it", i, due(f), s, s-due(f)) + ctxt}
				}
			}
		}
		earlyCancel := false
		for _, c := range f.CancelRets {
			if c < due(f) {
				earlyCancel = true
			}
		}
		if earlyCancel && len(f.Starts) > 0 {
			return "v", &vsched.Violation{Sig: "started-after-cancel", Detail: fmt.Sprintf("future #%d (due at +%v) was started at +%v although a Cancel had returned at %v, before it was due", i, due(f), f.Starts[0], f.CancelRets) + ctxt}
		}
		if len(f.CancelRets) == 0 && len(f.Starts) != 1 {
			return "v", &vsched.Violation{Sig: "never-started", Detail: fmt.Sprintf("future #%d (delay %v) was never cancelled and was started %d times by the final quiescence: a Cancel of another future or the pool state affected it", i, f.Delay, len(f.Starts)) + ctxt}
		}
		oc = append(oc, fmt.Sprintf("%d/%d", len(f.Starts), len(f.CancelRets)))
	}
	if !obs.HeapOKAlways {
		return "v", &vsched.Violation{Sig: "heap-index", Detail: "a queued future does not know its own heap index after " + obs.HeapBad + ctxt}
	}
	if obs.EndHeap != 0 {
		return "v", &vsched.Violation{Sig: "heap-residue", Detail: fmt.Sprintf("%d futures are still queued at the final quiescence", obs.EndHeap) + ctxt}
	}
	return strings.Join(oc, " "), nil
}

func job(sc tmh.Script, cfg vsched.Config) sdrv.Job {
	obs := new(tmh.Obs)
	return sdrv.Job{
		Name: fmt.Sprintf("%s P=%d K=%d", sc, cfg.P, cfg.K), Cfg: cfg, Scenario: sc.Build(obs),
		Check: func(x *vsched.Exec) (string, *vsched.Violation) { return judge(sc, obs, x) },
	}
}

// plans: how a future is cancelled: - none, n now (right after the calls), f at its fire time (races the pop), a after it fired, t twice
func script(delays []time.Duration, plans string, second bool, pool int, busy time.Duration) tmh.Script {
	var calls, cancels []tmh.Ev
	for i, d := range delays {
		calls = append(calls, tmh.Ev{K: "call", F: i, D: d, B: busy})
	}
	// cancels in the order: now-cancels first, then by due time
	type pc struct {
		i int
		p byte
	}
	var late []pc
	var tail []tmh.Ev // 'z': cancelled at the very end, 20ms after everything else (a "never" future)
	for i := range delays {
		switch plans[i] {
		case 'n':
			cancels = append(cancels, tmh.Ev{K: "cancel", F: i})
		case 't':
			cancels = append(cancels, tmh.Ev{K: "cancel", F: i}, tmh.Ev{K: "cancel", F: i})
		case 'f', 'a':
			late = append(late, pc{i, plans[i]})
		case 'z':
			tail = append(tail, tmh.Ev{K: "cancel", F: i})
		}
	}
	sort.SliceStable(late, func(a, b int) bool { return delays[late[a].i] < delays[late[b].i] })
	for _, l := range late {
		off := time.Duration(0)
		if l.p == 'a' {
			off = ms
		}
		cancels = append(cancels, tmh.Ev{K: "sleepfire", F: l.i, D: off}, tmh.Ev{K: "cancel", F: l.i})
	}
	if len(tail) > 0 {
		cancels = append(append(cancels, tmh.Ev{K: "sleep", D: 20 * ms}), tail...)
	}
	sc := tmh.Script{Pool: pool, Idle: 30 * time.Second, N: len(delays)}
	if second {
		sc.Threads = [][]tmh.Ev{calls, cancels}
	} else {
		sc.Threads = [][]tmh.Ev{append(calls, cancels...)}
	}
	return sc
}

func popcount(x int) int {
	n := 0
	for ; x != 0; x &= x - 1 {
		n++
	}
	return n
}

func tuplesPerm(xs []time.Duration) [][]time.Duration {
	if len(xs) <= 1 {
		return [][]time.Duration{append([]time.Duration{}, xs...)}
	}
	var r [][]time.Duration
	for i := range xs {
		rest := append(append([]time.Duration{}, xs[:i]...), xs[i+1:]...)
		for _, p := range tuplesPerm(rest) {
			r = append(r, append([]time.Duration{xs[i]}, p...))
		}
	}
	return r
}

func tuples[T any](alpha []T, n int) [][]T {
	if n == 0 {
		return [][]T{nil}
	}
	var r [][]T
	for _, rest := range tuples(alpha, n-1) {
		for _, a := range alpha {
			r = append(r, append(append([]T{}, rest...), a))
		}
	}
	return r
}

func main() {
	run := ev.Parse("C12", "model_checking")
	fine := vsched.Mask(vsched.KLock, vsched.KChan, vsched.KEnv, vsched.KSleep, vsched.KStep)
	var jobs []sdrv.Job
	D := []time.Duration{-ms, 0, ms, 5 * ms}
	add := func(n int, delays []time.Duration, plans string, seconds []bool, pools []int, busy time.Duration, cfg vsched.Config) {
		for _, ds := range tuples(delays, n) {
			for _, pl := range tuples([]byte(plans), n) {
				for _, sec := range seconds {
					for _, pool := range pools {
						jobs = append(jobs, job(script(ds, string(pl), sec, pool, busy), cfg))
					}
				}
			}
		}
	}
	adv := func(p, k int) vsched.Config {
		return vsched.Config{P: p, K: k, Clock: vsched.Adversarial, Preempt: fine, MaxSteps: 20000}
	}
	if !run.Thorough() {
		add(1, D, "-nfat", []bool{false, true}, []int{1, 2}, 0, adv(2, 1))
		add(2, D, "-nfa", []bool{false, true}, []int{1, 2}, 0, adv(1, 0))
		add(2, []time.Duration{0, ms, 5 * ms}, "-nf", []bool{false, true}, []int{1}, 0, adv(1, 1))
		add(3, []time.Duration{0, ms, 5 * ms}, "-nf", []bool{false}, []int{2}, 0, adv(1, 0))
		add(2, []time.Duration{ms, 5 * ms}, "-f", []bool{true}, []int{1}, 2*ms, adv(1, 1))
	} else {
		add(1, D, "-nfat", []bool{false, true}, []int{1, 2}, 0, adv(3, 2))
		add(2, D, "-nfat", []bool{false, true}, []int{1, 2}, 0, adv(2, 2))
		add(3, D, "-nfa", []bool{false, true}, []int{1, 2}, 0, adv(1, 1))
		add(4, []time.Duration{0, ms, 5 * ms}, "-nf", []bool{false}, []int{2}, 0, adv(1, 0))
		add(2, []time.Duration{0, ms, 5 * ms}, "-nf", []bool{true}, []int{1, 2}, 2*ms, adv(2, 1))
	}
	// several workers alive (after a burst) and a head that is further away than the idle timeout: a worker's
	// sleep is then clamped to the idle timeout, so an expired sleep timer does not mean the head is due
	for _, idle := range []time.Duration{2 * ms} {
		for _, pool := range []int{2, 3} {
			for _, far := range []time.Duration{3 * ms, 10 * ms} {
				for _, burst := range []time.Duration{0, ms} {
					for _, plan := range []string{"----", "---f", "n---", "-n-a"} {
						sc := script([]time.Duration{burst, burst, burst, far}, plan, false, pool, 0)
						sc.Idle = idle
						jobs = append(jobs, job(sc, adv(1, 0)))
						if run.Thorough() {
							jobs = append(jobs, job(sc, adv(2, 1)))
						}
					}
				}
			}
		}
	}
	// a burst of 4-5 futures due at the same instant with room in the pool: every hand-over to a freshly spawned
	// worker happens back to back, each future still starts exactly once
	for _, n := range []int{4, 5} {
		for _, d := range []time.Duration{0, ms} {
			for _, pool := range []int{3, 4, 10} {
				ds := make([]time.Duration, n)
				for i := range ds {
					ds[i] = d
				}
				jobs = append(jobs, job(script(ds, strings.Repeat("-", n), false, pool, 0), adv(5-n, 0)))
				if n == 4 {
					jobs = append(jobs, job(script(ds, "-n--", false, pool, 0), adv(1, 0)))
				}
			}
		}
	}
	// a big queue (4200 futures, beyond any initial slice capacity or batch size), most of it cancelled again: what remains
	// starts exactly once, on time
	{
		const total, cancelled = 4200, 3300
		ds := make([]time.Duration, total)
		plan := make([]byte, total)
		for i := range ds {
			ds[i] = 50 * ms
			plan[i] = '-'
			if i < cancelled {
				plan[i] = 'n'
			}
		}
		for _, how := range []byte{'n', 'z'} { // cancelled at once (no worker has looked at the queue yet) / 20ms later (the workers sleep on it)
			pl := bytes.ReplaceAll(plan, []byte{'n'}, []byte{how})
			sc := script(ds, string(pl), false, 2, 0)
			sc.MaxLate = ms
			jobs = append(jobs, job(sc, vsched.Config{P: 0, K: 0, Clock: vsched.Adversarial, Preempt: fine, MaxSteps: 20_000_000}))
		}
	}
	// seven queued futures - three near ones (1,2,3 ms, in every order) interleaved in every way with four far ones
	// (30..60 ms) - and one of them cancelled right away: the heap must stay a heap wherever the cancelled one sat, i.e.
	// every other future still starts when it is due (no clock deviations, callbacks return at once)
	nearOrders := tuplesPerm([]time.Duration{ms, 2 * ms, 3 * ms})
	far := []time.Duration{30 * ms, 40 * ms, 50 * ms, 60 * ms}
	for mask := 0; mask < 1<<7; mask++ {
		if popcount(mask) != 3 {
			continue
		}
		for _, near := range nearOrders {
			ds := make([]time.Duration, 7)
			ni, fi := 0, 0
			for i := range ds {
				if mask&(1<<i) != 0 {
					ds[i] = near[ni]
					ni++
				} else {
					ds[i] = far[fi]
					fi++
				}
			}
			for c := range ds {
				plan := []byte("-------")
				plan[c] = 'n'
				sc := script(ds, string(plan), false, 2, 0)
				sc.MaxLate = 100 * time.Microsecond
				jobs = append(jobs, job(sc, adv(0, 0)))
			}
		}
	}
	// "never": a delay of math.MaxInt64 next to ordinary ones; it is cancelled 20ms later and must not have started,
	// nor may it disturb the others
	for _, ds := range [][]time.Duration{{never, ms}, {ms, never}, {never, 0}, {never, never}, {5 * ms, never, ms}} {
		for _, pool := range []int{1, 2} {
			plan := ""
			for _, d := range ds {
				if d == never {
					plan += "z"
				} else {
					plan += "-"
				}
			}
			jobs = append(jobs, job(script(ds, plan, false, pool, 0), adv(1, 1)))
			jobs = append(jobs, job(script(ds, plan, true, pool, 0), adv(1, 0)))
		}
	}
	sort.SliceStable(jobs, func(a, b int) bool { return jobs[a].Cfg.P+jobs[a].Cfg.K > jobs[b].Cfg.P+jobs[b].Cfg.K })
	budget := 4 * time.Minute
	if run.Thorough() {
		budget = 12 * time.Minute
	}
	sdrv.Main(run, jobs, sdrv.Options{
		Budget: budget,
		Bounds: map[string]any{"futures": "1..3 (thorough 4)", "delays": "-1ms, 0, 1ms, 5ms with repetition (equal deadlines); a family with the maximal duration (never)", "cancel_plans": "none / right after the calls / exactly at the fire time (aligned with the dispatcher's timer so that Cancel races the pop) / 1ms after firing / twice", "callers": "1 or 2 (cancels issued by a second thread)", "pool_limit": "1..3", "idle_timeout": "30s, and 2ms in the family with a burst followed by a head beyond the idle timeout", "clock": "adversarial: the clock may advance while threads are runnable (K deviations) besides advancing when everything is blocked"},
		Rule:   "every schedule within the preemption bound P and clock-deviation bound K of every script (multiset of delays x cancel plan per future x 1-2 callers x pool limit; one family with callbacks that stay busy so that the pool saturates) on the real timeout package (rewritten: mutex, wake channel, timers, worker spawn are scheduling points; thorough: every statement). Oracle on the virtual clock: start >= call time + delay; at most one start; no start if a Cancel returned before call time + delay; every future that was never cancelled starts exactly once by the final quiescence whatever was cancelled around it; heap indices consistent after every event; heap empty at the end",
	})
}
