// C01 - distributed lock: at most one holder at any instant.
package main

import (
	"fmt"
	"os"
	"sort"
	"strings"
	"time"

	"github.com/acquirecloud/golibs/zverif/vsched"
	"verifh/internal/ev"
	"verifh/internal/lockh"
	"verifh/internal/sdrv"
)

const lease = 10 * time.Second

func progs(names ...string) []lockh.Prog {
	var r []lockh.Prog
	for _, n := range names {
		var p lockh.Prog
		for i := 0; i < len(n); i++ {
			a := lockh.Acq{Mode: n[i]}
			if i+1 < len(n) && n[i+1] == 'h' {
				a.Hold = lease / 2
				i++
			}
			p = append(p, a)
		}
		r = append(r, p)
	}
	return r
}

func product(alpha []lockh.Prog, n int) [][]lockh.Prog {
	if n == 0 {
		return [][]lockh.Prog{nil}
	}
	var r [][]lockh.Prog
	for _, rest := range product(alpha, n-1) {
		for _, p := range alpha {
			r = append(r, append(append([]lockh.Prog{}, rest...), p))
		}
	}
	return r
}

func job(sc *lockh.Scenario, cfg vsched.Config) sdrv.Job {
	obs := new(lockh.Obs)
	return sdrv.Job{
		Name:     fmt.Sprintf("%s P=%d F=%d", sc, cfg.P, cfg.F),
		Cfg:      cfg,
		Scenario: sc.Build(obs),
		Check: func(x *vsched.Exec) (string, *vsched.Violation) {
			if len(x.Panics) > 0 {
				return "panic", &vsched.Violation{Sig: "panic", Detail: x.Panics[0]}
			}
			if obs.DoubleHold != "" {
				return "double-hold", &vsched.Violation{Sig: "two-holders topo=" + sc.Topo.Name[:1], Detail: obs.DoubleHold + "\nscenario: " + sc.String()}
			}
			oc := fmt.Sprintf("%s acquired=%v", x.Outcome, obs.Acquired)
			return oc, nil
		},
	}
}

func main() {
	run := ev.Parse("C01", "model_checking")
	// preemption candidates: every mutex acquire, channel op, atomic op, storage crossing and sleep of the
	// rewritten kvlock + inmem + timeout sources. Unlock and spawn are not candidates: a switch right after
	// them is equivalent to a switch at the thread's next point (nothing visible happens in between).
	fine := vsched.Mask(vsched.KLock, vsched.KChan, vsched.KAtomic, vsched.KEnv, vsched.KSleep)
	var jobs []sdrv.Job
	storage := ""
	add := func(topos []string, alpha []lockh.Prog, faults bool, cfg vsched.Config) {
		for _, tn := range topos {
			topo := lockh.Topologies[tn]
			for _, ps := range product(alpha, len(topo.LockerOf)) {
				sc := &lockh.Scenario{Topo: topo, Progs: ps, Shutdown: -1, Lease: lease, Faults: faults, Storage: storage}
				jobs = append(jobs, job(sc, cfg))
			}
		}
	}
	core := progs("L", "T", "C", "X", "Y")
	wide := progs("L", "T", "C", "LL", "Lh", "TT", "CT", "CL", "XT")
	two := []string{"a", "b", "c"}
	bounds := map[string]any{"clock": "maximal progress (leases of live holders are renewed in time)"}
	budget := 10 * time.Minute
	if !run.Thorough() {
		add(two, core, false, vsched.Config{P: 2, Preempt: fine, MaxSteps: 5000})
		add(two, wide, false, vsched.Config{P: 1, Preempt: fine, MaxSteps: 5000})
		add(two, progs("L", "T", "C", "LT", "LL"), true, vsched.Config{P: 1, F: 1, Preempt: fine, MaxSteps: 5000})
		// a holder that stays in the critical section for half a lease while the other one retries (fault on the release path)
		for _, tn := range []string{"a", "c"} {
			for _, other := range progs("L", "T", "LT") {
				for _, ps := range [][]lockh.Prog{{progs("Lh")[0], other}, {other, progs("Lh")[0]}} {
					sc := &lockh.Scenario{Topo: lockh.Topologies[tn], Progs: ps, Shutdown: -1, Lease: lease, Faults: true}
					jobs = append(jobs, job(sc, vsched.Config{P: 1, F: 1, Preempt: fine, MaxSteps: 5000}))
				}
			}
		}
		add([]string{"d"}, progs("L", "T"), false, vsched.Config{P: 1, Preempt: fine, MaxSteps: 5000})
		add([]string{"e"}, progs("L", "T"), true, vsched.Config{P: 0, F: 1, Preempt: fine, MaxSteps: 5000})
		// Unlock exactly when the renewal timer fires (Lh), with a waiter that takes over and the first holder coming
		// back: a renewal of the finished tenure must never touch the record of the next holder
		for _, tn := range []string{"a", "b"} {
			for _, x := range progs("LhT") {
				for _, y := range progs("Lh", "L") {
					if tn == "b" && y.String() == "L" {
						continue
					}
					sc := &lockh.Scenario{Topo: lockh.Topologies[tn], Progs: []lockh.Prog{x, y}, Shutdown: -1, Lease: lease}
					jobs = append(jobs, job(sc, vsched.Config{P: 2, Preempt: fine, MaxSteps: 5000}))
				}
			}
		}
		// the same lock over the Redis backend (miniredis): every Redis command is a scheduling point
		storage = "redis"
		// (no cancellable contexts here: go-redis runs a command of a cancellable context on a goroutine of its own,
		// outside the controlled scheduler)
		add([]string{"a", "b", "c"}, progs("L", "T", "LL", "TT", "LT"), false, vsched.Config{P: 1, Preempt: fine, MaxSteps: 20000})
		storage = ""
		bounds["tiers"] = "renewal-races-unlock family LhT x {Lh,L} P<=2; Redis backend: {L,T,LL,TT,LT}^2 P<=1 at Redis-command granularity; in-memory: 2 threads {L,T,C,X}^2 P<=2; {L,T,C,LL,Lh,TT}^2 P<=1; faults F<=1 with P<=1 on {L,T,C,LT,LL}^2, on Lh x {L,T,LT} and with P=0 on 3 providers {L,T}^3; 3 threads {L,T}^3 P<=1"
		budget = 4 * time.Minute
	} else {
		add(two, core, false, vsched.Config{P: 3, Preempt: fine, MaxSteps: 5000})
		add(two, wide, false, vsched.Config{P: 2, Preempt: fine, MaxSteps: 5000})
		add(two, progs("L", "T", "C", "LL"), true, vsched.Config{P: 1, F: 2, Preempt: fine, MaxSteps: 5000})
		add(two, progs("L", "T", "C"), true, vsched.Config{P: 2, F: 1, Preempt: fine, MaxSteps: 5000})
		add([]string{"d", "e"}, progs("L", "T", "C"), false, vsched.Config{P: 2, Preempt: fine, MaxSteps: 5000})
		add([]string{"d"}, progs("L", "T"), true, vsched.Config{P: 1, F: 1, Preempt: fine, MaxSteps: 5000})
		// coarse granularity (storage operations only) with a high preemption bound
		coarse := vsched.Mask(vsched.KEnv, vsched.KSleep)
		add([]string{"a", "b", "c", "d", "e"}, progs("L", "T", "C", "LL"), false, vsched.Config{P: 5, Preempt: coarse, MaxSteps: 5000})
		storage = "redis"
		add([]string{"a", "b", "c"}, progs("L", "T", "LL", "TT", "LT"), false, vsched.Config{P: 2, Preempt: fine, MaxSteps: 20000})
		add([]string{"b"}, progs("L", "T", "LT"), true, vsched.Config{P: 1, F: 1, Preempt: fine, MaxSteps: 20000})
		storage = ""
		bounds["tiers"] = "Redis backend: {L,T,LL,TT,LT}^2 P<=2, faults F<=1; in-memory: 2 threads {L,T,C,X}^2 P<=3; wide alphabet P<=2; faults F<=2/P<=1 and F<=1/P<=2; 3 threads (topologies d,e) {L,T,C}^3 P<=2; storage-operation granularity P<=5 on all topologies"
		budget = 12 * time.Minute
	}
	// heavy jobs first (dynamic queue): more preemptions, more cancellers
	weight := func(j sdrv.Job) int { return j.Cfg.P*100 + j.Cfg.F*50 + 10*strings.Count(j.Name, "C") + len(j.Name) }
	sort.SliceStable(jobs, func(a, b int) bool { return weight(jobs[a]) > weight(jobs[b]) })
	if os.Getenv("VERIF_BUDGET_S") != "" {
		var sec int
		fmt.Sscan(os.Getenv("VERIF_BUDGET_S"), &sec)
		budget = time.Duration(sec) * time.Second
	}
	sdrv.Main(run, jobs, sdrv.Options{
		Budget: budget,
		Rule:   "every schedule within the preemption bound (candidates: every mutex acquire / channel op / atomic / storage call / sleep of the rewritten kvlock+inmem+timeout sources) x every fault placement within the fault budget (request-lost and reply-lost on Create/Delete/WaitForVersionChange) of every program tuple over {L=Lock, T=TryLock, C=LockWithCtx+canceller at any point, X=LockWithCtx(already cancelled), LL/TT=two tenures, Lh=Lock and hold lease/2 so that a renewal is in flight}; each successful attempt is followed by a critical-section marker and Unlock; oracle: holders counter never reaches 2",
		Bounds: bounds,
	})
}
