// C02 - KV storage: atomic operations, single CAS winner, fresh versions.
package main

import (
	"context"
	"errors"
	"fmt"
	"io"
	"sort"
	"strings"
	"time"

	"github.com/acquirecloud/golibs/kvs"
	kredis "github.com/acquirecloud/golibs/kvs/redis"
	"github.com/acquirecloud/golibs/zverif/vsched"
	"github.com/go-redis/redis/v8"
	"verifh/internal/ev"
	"verifh/internal/kvh"
	"verifh/internal/sdrv"
)

// POp is one operation of a thread program.
type POp struct {
	Kind string // create get put cas delete putmany getmany
	Key  string
	Ver  string // cas: v0 | stale | own | never
	Keys []string
	Same bool // cas/put: write the value the pre-loaded record already holds (a write that changes nothing but the version)
}

func (o POp) String() string {
	switch o.Kind {
	case "cas":
		if o.Same {
			return "cas(" + o.Key + "," + o.Ver + ",same value)"
		}
		return "cas(" + o.Key + "," + o.Ver + ")"
	case "putmany", "getmany":
		return o.Kind + "(" + strings.Join(o.Keys, ",") + ")"
	}
	return o.Kind + "(" + o.Key + ")"
}

var alphabet = []POp{
	{Kind: "create", Key: "a"}, {Kind: "get", Key: "a"}, {Kind: "put", Key: "a"},
	{Kind: "cas", Key: "a", Ver: "v0"}, {Kind: "cas", Key: "a", Ver: "stale"}, {Kind: "delete", Key: "a"},
	{Kind: "putmany", Keys: []string{"a", "b"}}, {Kind: "getmany", Keys: []string{"a", "b"}},
}

var extra = []POp{
	{Kind: "putmany", Keys: []string{"a", "a"}}, {Kind: "cas", Key: "a", Ver: "own"}, {Kind: "create", Key: "b"}, {Kind: "delete", Key: "b"},
	// a slash-prefixed key: every operation must map it to the same stored key
	// a compare-and-set that stores what is already there: still a write, with a fresh version and a single winner
	{Kind: "cas", Key: "a", Ver: "v0", Same: true},
	{Kind: "put", Key: "/s"}, {Kind: "getmany", Keys: []string{"/s", "a"}}, {Kind: "get", Key: "/s"},
}

type scen struct {
	backend string
	preload bool
	progs   [][]POp
	faults  bool // Redis: the reply to a write command (SET, SETNX, the EXEC of a transaction) may be lost after the server executed it
}

// replyLost is what the client sees when the reply to a command never arrives
var replyLost = io.EOF

// faultsOn is read by the go-redis hook of the worker threads' clients
var faultsOn bool

type lostReplyHook struct{}

func (lostReplyHook) BeforeProcess(ctx context.Context, cmd redis.Cmder) (context.Context, error) {
	return ctx, nil
}
func (lostReplyHook) BeforeProcessPipeline(ctx context.Context, cmds []redis.Cmder) (context.Context, error) {
	return ctx, nil
}
func lose(what string) error {
	if !faultsOn || !strings.HasPrefix(vsched.ThreadName(), "t") {
		return nil
	}
	if vsched.Choose("reply-lost:"+what, 2, false) == 1 {
		vsched.Note("%s: reply to %s lost", vsched.ThreadName(), what)
		return replyLost
	}
	return nil
}
func (lostReplyHook) AfterProcess(ctx context.Context, cmd redis.Cmder) error {
	if n := cmd.Name(); (n == "set" || n == "setnx") && cmd.Err() == nil {
		return lose(n)
	}
	return nil
}
func (lostReplyHook) AfterProcessPipeline(ctx context.Context, cmds []redis.Cmder) error {
	for _, c := range cmds {
		if c.Name() == "exec" && c.Err() == nil {
			return lose("exec")
		}
	}
	return nil
}

func (s scen) String() string {
	var ps []string
	for _, p := range s.progs {
		var os []string
		for _, o := range p {
			os = append(os, o.String())
		}
		ps = append(ps, strings.Join(os, ";"))
	}
	f := ""
	if s.faults {
		f = " lost-replies"
	}
	return fmt.Sprintf("%s%s preload=%v %s", s.backend, f, s.preload, strings.Join(ps, " || "))
}

var backends = map[string]kvh.Backend{}

func backend(name string) kvh.Backend {
	if b, ok := backends[name]; ok {
		return b
	}
	var b kvh.Backend
	if name == "redis" {
		rb := kvh.NewRedis(true)
		rb.OnNewClient = func(st kvs.Storage) { kredis.VerifAddHook(st, lostReplyHook{}) }
		b = rb
	} else {
		b = kvh.NewInmem()
	}
	backends[name] = b
	return b
}

func job(sc scen, cfg vsched.Config) sdrv.Job {
	var h *kvh.History
	var pending []int // writes whose reply was lost: the caller cannot know whether they took effect
	scenario := func() {
		h = &kvh.History{}
		faultsOn = sc.faults
		be := backend(sc.backend)
		st0 := be.Fresh()
		ctx := context.Background()
		canon := map[string]string{}
		cv := func(v string) string {
			if v == "" {
				return "-"
			}
			if c, ok := canon[v]; ok {
				return c
			}
			canon[v] = fmt.Sprintf("v%d", len(canon)+1)
			return canon[v]
		}
		v0, stale := "", "01HZZZZZZZZZZZZZZZZZZZZZZS"
		if sc.preload {
			i := h.Begin(kvh.HOp{Thread: 90, Kind: "put", Key: "a", Val: "old"})
			r, err := st0.Put(ctx, kvs.Record{Key: "a", Value: []byte("old")})
			h.End(i, "", r.Version, kvh.ErrClass(err))
			stale = r.Version
			i = h.Begin(kvh.HOp{Thread: 90, Kind: "put", Key: "a", Val: "init"})
			r, err = st0.Put(ctx, kvs.Record{Key: "a", Value: []byte("init")})
			h.End(i, "", r.Version, kvh.ErrClass(err))
			v0 = r.Version
			cv(stale)
			cv(v0)
		} else {
			v0 = "01HZZZZZZZZZZZZZZZZZZZZZZ0"
		}
		// writes whose reply was lost: the caller does not know whether they took effect; the value they carry tells
		type maybeOp struct {
			idx int
			val string
		}
		var maybe []maybeOp
		lost := func(i int, val string, err error) bool {
			if sc.faults && errors.Is(err, replyLost) {
				maybe = append(maybe, maybeOp{i, val})
				return true
			}
			return false
		}
		done := make([]bool, len(sc.progs))
		for t, prog := range sc.progs {
			t, prog := t, prog
			st := be.NewClient()
			vsched.GoNamed(fmt.Sprintf("t%d", t), func() {
				defer func() { done[t] = true }()
				own := map[string]string{}
				for oi, o := range prog {
					val := fmt.Sprintf("t%d.%d", t, oi)
					if o.Same {
						val = "init"
					}
					switch o.Kind {
					case "create":
						i := h.Begin(kvh.HOp{Thread: t, Kind: "create", Key: o.Key, Val: val})
						ver, err := st.Create(ctx, kvs.Record{Key: o.Key, Value: []byte(val)})
						if !lost(i, val, err) {
							h.End(i, "", ver, kvh.ErrClass(err))
						}
						if err == nil {
							own[o.Key] = ver
						}
						vsched.Note("t%d create(%s) -> %s %s", t, o.Key, cv(ver), kvh.ErrClass(err))
					case "createc":
						// Create with a context that an environment event may cancel at any moment: either it takes effect
						// (nil / ErrExist) or it reports the context's error and changes nothing - atomically in both cases
						cctx, cancel := context.WithCancel(ctx)
						vsched.Pseudo(fmt.Sprintf("cancel-t%d-%d", t, oi), nil, func() { cancel(); vsched.Note("cancel t%d", t) })
						i := h.Begin(kvh.HOp{Thread: t, Kind: "create", Key: o.Key, Val: val})
						ver, err := st.Create(cctx, kvs.Record{Key: o.Key, Value: []byte(val)})
						cancel()
						if ec := kvh.ErrClass(err); ec == "Canceled" {
							h.Drop(i) // refused: must have had no effect (the final read-all and the other threads' results decide)
						} else {
							h.End(i, "", ver, ec)
						}
						if err == nil {
							own[o.Key] = ver
						}
						vsched.Note("t%d createc(%s) -> %s %s", t, o.Key, cv(ver), kvh.ErrClass(err))
					case "get":
						i := h.Begin(kvh.HOp{Thread: t, Kind: "get", Key: o.Key})
						r, err := st.Get(ctx, o.Key)
						h.End(i, string(r.Value), r.Version, kvh.ErrClass(err))
						if err == nil {
							own[o.Key] = r.Version
						}
						vsched.Note("t%d get(%s) -> %s %s %s", t, o.Key, r.Value, cv(r.Version), kvh.ErrClass(err))
					case "put":
						i := h.Begin(kvh.HOp{Thread: t, Kind: "put", Key: o.Key, Val: val})
						r, err := st.Put(ctx, kvs.Record{Key: o.Key, Value: []byte(val)})
						if !lost(i, val, err) {
							h.End(i, "", r.Version, kvh.ErrClass(err))
						}
						own[o.Key] = r.Version
						vsched.Note("t%d put(%s) -> %s %s", t, o.Key, cv(r.Version), kvh.ErrClass(err))
					case "cas":
						exp := map[string]string{"v0": v0, "stale": stale, "never": "01HZZZZZZZZZZZZZZZZZZZZZZN"}[o.Ver]
						if o.Ver == "own" {
							exp = own[o.Key]
							if exp == "" {
								exp = "01HZZZZZZZZZZZZZZZZZZZZZZN"
							}
						}
						i := h.Begin(kvh.HOp{Thread: t, Kind: "cas", Key: o.Key, Val: val, ExpVer: exp})
						r, err := st.CasByVersion(ctx, kvs.Record{Key: o.Key, Value: []byte(val), Version: exp})
						outVer := ""
						if err == nil {
							outVer = r.Version
							own[o.Key] = r.Version
						}
						if !lost(i, val, err) {
							h.End(i, "", outVer, kvh.ErrClass(err))
						}
						vsched.Note("t%d cas(%s,%s) -> %s %s", t, o.Key, cv(exp), cv(outVer), kvh.ErrClass(err))
					case "delete":
						i := h.Begin(kvh.HOp{Thread: t, Kind: "delete", Key: o.Key})
						err := st.Delete(ctx, o.Key)
						h.End(i, "", "", kvh.ErrClass(err))
						vsched.Note("t%d delete(%s) -> %s", t, o.Key, kvh.ErrClass(err))
					case "putmany":
						call := h.Tick()
						var rs []kvs.Record
						for ki, k := range o.Keys {
							rs = append(rs, kvs.Record{Key: k, Value: []byte(fmt.Sprintf("%s.%d", val, ki))})
						}
						err := st.PutMany(ctx, rs)
						ret := h.Tick()
						for ki, k := range o.Keys {
							// repeated key inside one call: the legs are sequential, give them nested sub-intervals in order
							h.AddComplete(kvh.HOp{Thread: t*10 + ki + 100, Kind: "put", Key: k, Val: fmt.Sprintf("%s.%d", val, ki), Err: kvh.ErrClass(err), Call: call, Ret: ret, Multi: "putmany"})
						}
						vsched.Note("t%d putmany(%v) -> %s", t, o.Keys, kvh.ErrClass(err))
					case "getmany":
						call := h.Tick()
						rs, err := st.GetMany(ctx, o.Keys...)
						ret := h.Tick()
						var ns []string
						for ki, k := range o.Keys {
							e := kvh.ErrClass(err)
							val, ver := "", ""
							if err == nil && (ki >= len(rs) || rs[ki] == nil) {
								e = "ErrNotExist"
							} else if err == nil {
								val, ver = string(rs[ki].Value), rs[ki].Version
							}
							h.AddComplete(kvh.HOp{Thread: t*10 + ki + 100, Kind: "get", Key: k, OutVal: val, OutVer: ver, Err: e, Call: call, Ret: ret, Multi: "getmany"})
							ns = append(ns, fmt.Sprintf("%s=%s/%s", k, val, cv(ver)))
						}
						vsched.Note("t%d getmany -> %v %s", t, ns, kvh.ErrClass(err))
					}
				}
			})
		}
		vsched.WaitFor("threads", func() bool {
			for _, d := range done {
				if !d {
					return false
				}
			}
			return true
		})
		// final read-all: losers must have changed nothing, and versions of unobserved writes become known
		for _, k := range []string{"a", "b", "/s"} {
			i := h.Begin(kvh.HOp{Thread: 91, Kind: "get", Key: k})
			r, err := st0.Get(ctx, k)
			h.End(i, string(r.Value), r.Version, kvh.ErrClass(err))
			vsched.Note("final %s = %s %s %s", k, r.Value, cv(r.Version), kvh.ErrClass(err))
		}
		pending = nil
		for _, m := range maybe {
			pending = append(pending, m.idx)
		}
	}
	return sdrv.Job{
		Name: fmt.Sprintf("%s P=%d", sc, cfg.P), Cfg: cfg, Scenario: scenario,
		Check: func(x *vsched.Exec) (string, *vsched.Violation) {
			if len(x.Panics) > 0 {
				return "panic", &vsched.Violation{Sig: sc.backend + " panic", Detail: x.Panics[0]}
			}
			if x.Outcome != vsched.Completed {
				return x.Outcome.String(), &vsched.Violation{Sig: sc.backend + " " + x.Outcome.String(), Detail: fmt.Sprintf("threads did not finish: %v", x.Blocked)}
			}
			sig, det := h.Check()
			if sig != "" && len(pending) > 0 {
				// ... so the history is judged both ways: without them, and with them as successful writes of unknown
				// version whose response lies after everything else (fault budget 1: at most one such write)
				for _, i := range pending {
					h.EndUnknownVersion(i)
				}
				sig, det = h.Check()
			}
			if sig != "" {
				return "violation", &vsched.Violation{Sig: sc.backend + " " + sig, Detail: det + "\nscenario: " + sc.String()}
			}
			// outcome class: the error classes of the worker operations, in thread order
			var oc []string
			for _, o := range h.Ops {
				if o.Thread < 90 || o.Thread >= 100 {
					oc = append(oc, o.Err)
				}
			}
			return strings.Join(oc, ","), nil
		},
	}
}

func progsOf(alpha []POp, k int) [][]POp {
	if k == 0 {
		return [][]POp{nil}
	}
	var r [][]POp
	for _, rest := range progsOf(alpha, k-1) {
		for _, o := range alpha {
			r = append(r, append(append([]POp{}, rest...), o))
		}
	}
	return r
}

func main() {
	run := ev.Parse("C02", "model_checking")
	var jobs []sdrv.Job
	fineMem := vsched.Mask(vsched.KLock, vsched.KChan, vsched.KStep, vsched.KEnv)
	cmdOnly := vsched.Mask(vsched.KEnv)
	full := append(append([]POp{}, alphabet...), extra...)
	withFaults := false
	addAll := func(be string, threads int, progs [][]POp, cfg vsched.Config, preloads []bool) {
		var rec func(cur [][]POp)
		rec = func(cur [][]POp) {
			if len(cur) == threads {
				for _, pre := range preloads {
					jobs = append(jobs, job(scen{be, pre, append([][]POp{}, cur...), withFaults}, cfg))
				}
				return
			}
			for _, p := range progs {
				rec(append(cur, p))
			}
		}
		rec(nil)
	}
	both := []bool{false, true}
	bounds := map[string]any{}
	// Redis with lost replies (F<=1): the reply to one write command may vanish after the server executed it; the caller
	// then gets an error and does not know - but a call that REPORTS a documented loser outcome must have changed nothing
	withFaults = true
	fprogs := [][]POp{{alphabet[0]}, {alphabet[1]}, {alphabet[2]}, {alphabet[3]}, {alphabet[5]}}
	addAll("redis", 2, fprogs, vsched.Config{P: 2, F: 1, Preempt: vsched.Mask(vsched.KEnv), MaxSteps: 3000}, both)
	addAll("redis", 1, fprogs, vsched.Config{P: 0, F: 1, Preempt: vsched.Mask(vsched.KEnv), MaxSteps: 3000}, both)
	withFaults = false
	if !run.Thorough() {
		// in-memory: 2 threads x 2 ops over the 8-op alphabet, 3 threads x 1 op over the 12-op alphabet
		addAll("inmem", 2, progsOf(alphabet, 2), vsched.Config{P: 3, Preempt: fineMem, MaxSteps: 3000}, both)
		addAll("inmem", 3, progsOf(full, 1), vsched.Config{P: 3, Preempt: fineMem, MaxSteps: 3000}, both)
		// redis: every interleaving of the commands of 2 threads x 1 op; the racing triples
		addAll("redis", 2, progsOf(full, 1), vsched.Config{P: 20, Preempt: cmdOnly, MaxSteps: 3000}, both)
		racers := [][]POp{{alphabet[3]}, {alphabet[5]}, {alphabet[0]}, {alphabet[2]}}
		addAll("redis", 3, racers, vsched.Config{P: 3, Preempt: cmdOnly, MaxSteps: 3000}, []bool{true})
		// a family with scheduling points INSIDE the storage's critical sections (just before the mutex is released) and a
		// Create whose context may be cancelled at any moment: sound also for code that polls the lock instead of queueing
		held := vsched.Mask(vsched.KLock, vsched.KChan, vsched.KEnv, vsched.KHeld, vsched.KSleep)
		cprogs := [][]POp{{{Kind: "createc", Key: "a"}}, {{Kind: "create", Key: "a"}}, {{Kind: "put", Key: "a"}}, {{Kind: "delete", Key: "a"}}, {{Kind: "cas", Key: "a", Ver: "v0"}}}
		addAll("inmem", 3, cprogs, vsched.Config{P: 2, Preempt: held, MaxSteps: 3000}, both)
		bounds["inmem"] = "2 threads x 2 ops (8-op alphabet) and 3 threads x 1 op (12-op alphabet), from empty and pre-loaded store, P<=3 with points at the mutex and at every statement executed without the mutex"
		bounds["redis"] = "2 threads x 1 op (12-op alphabet): all command interleavings; 3 threads x 1 op over {cas(v0), delete, create, put}: P<=3"
	} else {
		addAll("inmem", 2, progsOf(full, 2), vsched.Config{P: 4, Preempt: fineMem, MaxSteps: 3000}, both)
		addAll("inmem", 3, progsOf(full, 1), vsched.Config{P: 6, Preempt: fineMem, MaxSteps: 3000}, both)
		addAll("inmem", 3, progsOf(alphabet[:6], 2)[:0], vsched.Config{P: 3, Preempt: fineMem, MaxSteps: 3000}, both)
		addAll("redis", 2, progsOf(full, 1), vsched.Config{P: 20, Preempt: cmdOnly, MaxSteps: 3000}, both)
		addAll("redis", 2, progsOf(alphabet, 2), vsched.Config{P: 2, Preempt: cmdOnly, MaxSteps: 3000}, []bool{true})
		addAll("redis", 3, progsOf(alphabet[:6], 1), vsched.Config{P: 20, Preempt: cmdOnly, MaxSteps: 3000}, []bool{true})
		bounds["inmem"] = "2 threads x 2 ops and 3 threads x 1 op over the 12-op alphabet, P<=4/6"
		bounds["redis"] = "2x1 all interleavings; 2x2 P<=2; 3x1 over 6 ops all interleavings"
	}
	sort.SliceStable(jobs, func(a, b int) bool {
		return strings.HasPrefix(jobs[a].Name, "redis") && !strings.HasPrefix(jobs[b].Name, "redis")
	})
	budget := 4 * time.Minute
	if run.Thorough() {
		budget = 12 * time.Minute
	}
	sdrv.Main(run, jobs, sdrv.Options{
		Budget: budget, Bounds: bounds,
		Rule: "every program assignment over {Create, Get, Put, CasByVersion(v0|stale|own last seen), Delete, PutMany([a,b]|[a,a]), GetMany(a,b)} from the empty store and from a store pre-loaded with a@v0; in-memory: every schedule within the preemption bound with scheduling points at the mutex and at every statement executed while no mutex is held; Redis: every interleaving of the Redis commands of the clients (each client connection write is a scheduling point, miniredis as the server). Oracle: only documented outcomes; bijection between successful writes and version strings (freshness); per-key linearizability of the recorded call/return history against the sequential KV model (porcupine), PutMany/GetMany split into per-key legs; final read-all",
	})
}
