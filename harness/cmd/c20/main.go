// C20 - zip helpers: lossless round trip and extraction confined to target.
package main

import (
	"archive/zip"
	"crypto/sha256"
	"fmt"
	"io/fs"
	"os"
	"path/filepath"
	"sort"
	"strings"

	"github.com/acquirecloud/golibs/files"
	"verifh/internal/ev"
)

var universe = []struct {
	path    string
	content string
}{
	{"root.txt", "root"},
	{"empty", ""},
	{"bin.dat", bigBinary()},
	{"d/f.txt", "in d"},
	{"d/e/f.txt", "deep"},
	{"name with space.txt", "space"},
	{"dots..in.name", "dots"},
	{"d/ünï-世界.txt", "unicode"},
	{".hidden", "hidden"},
	{"d/x.skip", "filtered"},
}

// bigBinary: 70001 bytes (more than one 32 KiB inflate window, more than one 64 KiB buffer) of binary content that does
// not compress to nothing
func bigBinary() string {
	b := make([]byte, 70001)
	x := uint32(12345)
	for i := range b {
		x = x*1664525 + 1013904223
		b[i] = byte(x >> 24)
		if i%7 == 0 {
			b[i] = 0
		}
	}
	return string(b)
}

type filter struct {
	name string
	f    func(string) bool
}

var filters = []filter{
	{"nil", nil},
	{"all", func(string) bool { return true }},
	{"reject *.skip", func(p string) bool { return !strings.HasSuffix(p, ".skip") }},
	{"none", func(string) bool { return false }},
	{"only d/", func(p string) bool {
		return strings.Contains(p, string(filepath.Separator)+"d"+string(filepath.Separator))
	}},
}

func must(err error) {
	if err != nil {
		ev.Infra("scratch file system: %v", err)
	}
}

// snapshot maps relative path -> "dir" | sha256 of content
func snapshot(root string) map[string]string {
	m := map[string]string{}
	filepath.WalkDir(root, func(p string, d fs.DirEntry, err error) error {
		if err != nil {
			return nil
		}
		rel, _ := filepath.Rel(root, p)
		if d.IsDir() {
			m[rel] = "dir"
			return nil
		}
		b, e := os.ReadFile(p)
		if e != nil {
			m[rel] = "unreadable"
			return nil
		}
		m[rel] = fmt.Sprintf("%x/%d", sha256.Sum256(b), len(b))
		return nil
	})
	return m
}

func files_(m map[string]string) map[string]string {
	r := map[string]string{}
	for k, v := range m {
		if v != "dir" {
			r[k] = v
		}
	}
	return r
}

func keys(m map[string]string) []string {
	var ks []string
	for k := range m {
		ks = append(ks, k)
	}
	sort.Strings(ks)
	return ks
}

func main() {
	run := ev.Parse("C20", "exploration")
	scratch, err := os.MkdirTemp("", "verif-c20-")
	must(err)
	defer os.RemoveAll(scratch)
	evals, nontriv := 0, 0
	var samples ev.Samples
	seen := map[string]bool{}
	fail := func(sig, detail string, rp map[string]any) {
		if seen[sig] {
			return
		}
		seen[sig] = true
		run.Violation(sig, detail, rp)
	}

	// ---- part 1: round trip
	n := len(universe)
	caseNo := 0
	for mask := 0; mask < 1<<n; mask++ {
		if !run.Thorough() {
			// quick: subsets of size <= 2, their complements, and every 37th subset
			pc := 0
			for i := 0; i < n; i++ {
				if mask&(1<<i) != 0 {
					pc++
				}
			}
			if !(pc <= 2 || pc >= n-1 || mask%37 == 0) {
				continue
			}
		}
		for fi, flt := range filters {
			for _, recursive := range []bool{true, false} {
				caseNo++
				// the same few destination paths are used over and over (each wiped after its case): a round trip must not
				// depend on what an earlier extraction into the same path left behind in the process
				base := filepath.Join(scratch, fmt.Sprintf("rt%d", caseNo%3))
				src, dst, zf := filepath.Join(base, "src"), filepath.Join(base, "out", "dst"), filepath.Join(base, "a.zip")
				must(os.MkdirAll(src, 0o755))
				must(os.MkdirAll(filepath.Join(src, "emptydir"), 0o755))
				expect := map[string]string{}
				var chosen []string
				for i, u := range universe {
					if mask&(1<<i) == 0 {
						continue
					}
					chosen = append(chosen, u.path)
					p := filepath.Join(src, filepath.FromSlash(u.path))
					must(os.MkdirAll(filepath.Dir(p), 0o755))
					must(os.WriteFile(p, []byte(u.content), 0o644))
					if flt.f != nil && !flt.f(p) {
						continue
					}
					if !recursive && strings.Contains(u.path, "/") {
						continue
					}
					expect[filepath.FromSlash(u.path)] = fmt.Sprintf("%x/%d", sha256.Sum256([]byte(u.content)), len(u.content))
				}
				evals++
				if len(expect) > 0 {
					nontriv++
				}
				desc := fmt.Sprintf("tree=%v filter=%s recursive=%v", chosen, flt.name, recursive)
				rp := map[string]any{"tree": chosen, "filter": flt.name, "recursive": recursive}
				trailing := (mask+fi)%2 == 0
				srcArg := src
				if trailing {
					srcArg = src + string(filepath.Separator) // the same directory, spelled with a trailing separator
				}
				desc += fmt.Sprintf(" srcDirTrailingSlash=%v", trailing)
				if err := files.ZipFolder(srcArg, zf, flt.f, recursive); err != nil {
					fail("roundtrip zip-error", desc+": ZipFolder: "+err.Error(), rp)
					os.RemoveAll(base)
					continue
				}
				if err := files.UnzipToFolder(zf, dst); err != nil {
					fail("roundtrip unzip-error", desc+": UnzipToFolder: "+err.Error(), rp)
					os.RemoveAll(base)
					continue
				}
				got := files_(snapshot(dst))
				if fmt.Sprint(keys(got)) != fmt.Sprint(keys(expect)) {
					fail(fmt.Sprintf("roundtrip file-set filter=%d recursive=%v trailing-slash=%v", fi, recursive, trailing), fmt.Sprintf("%s: extracted %v, expected %v", desc, keys(got), keys(expect)), rp)
				} else {
					for k, v := range expect {
						if got[k] != v {
							fail("roundtrip content", fmt.Sprintf("%s: content of %s differs", desc, k), rp)
						}
					}
				}
				if caseNo%211 == 1 {
					samples.Add(desc + fmt.Sprintf(" -> %d files", len(expect)))
				}
				os.RemoveAll(base)
			}
		}
	}

	// ---- part 1c: the source directory given as a short RELATIVE path whose text re-occurs inside the tree
	// ("d" holding d/d/f.txt and ad.txt, "data" holding metadata.json, ...): the entry name is the path below the source
	// directory, whatever the directory is called
	for _, name := range []string{"d", "data", "src", "a"} {
		for _, recursive := range []bool{true, false} {
			caseNo++
			base := filepath.Join(scratch, fmt.Sprintf("rel%d", caseNo))
			src := filepath.Join(base, name)
			tree := map[string]string{name + ".txt": "1", "x" + name: "2", "meta" + name + ".json": "4",
				name + "/" + name + "/f.txt": "5", "sub/" + name + "/" + name: "6", "sub/" + name + "x/y": "7"}
			expect := map[string]string{}
			for rel, content := range tree {
				pth := filepath.Join(src, filepath.FromSlash(rel))
				must(os.MkdirAll(filepath.Dir(pth), 0o755))
				must(os.WriteFile(pth, []byte(content), 0o644))
				if recursive || !strings.Contains(rel, "/") {
					expect[filepath.FromSlash(rel)] = fmt.Sprintf("%x/%d", sha256.Sum256([]byte(content)), len(content))
				}
			}
			cwd, _ := os.Getwd()
			must(os.Chdir(base))
			zerr := files.ZipFolder(name, "a.zip", nil, recursive)
			os.Chdir(cwd)
			desc := fmt.Sprintf("relative source directory %q recursive=%v", name, recursive)
			evals++
			nontriv++
			if zerr != nil {
				fail("roundtrip zip-error relative", desc+": ZipFolder: "+zerr.Error(), nil)
			} else if err := files.UnzipToFolder(filepath.Join(base, "a.zip"), filepath.Join(base, "out")); err != nil {
				fail("roundtrip unzip-error relative", desc+": UnzipToFolder: "+err.Error(), nil)
			} else {
				got := files_(snapshot(filepath.Join(base, "out")))
				if fmt.Sprint(keys(got)) != fmt.Sprint(keys(expect)) {
					fail("roundtrip file-set relative-source", fmt.Sprintf("%s: extracted %v, expected %v", desc, keys(got), keys(expect)), nil)
				} else {
					for k, v := range expect {
						if got[k] != v {
							fail("roundtrip content relative-source", fmt.Sprintf("%s: content of %s differs", desc, k), nil)
						}
					}
				}
			}
			os.RemoveAll(base)
		}
	}

	// ---- part 1b: extracting over existing files (second extraction with shorter content, duplicate entries)
	for variant := 0; variant < 3; variant++ {
		caseNo++
		base := filepath.Join(scratch, fmt.Sprintf("re%d", caseNo))
		src, dst := filepath.Join(base, "src"), filepath.Join(base, "dst")
		must(os.MkdirAll(filepath.Join(src, "d"), 0o755))
		write := func(long bool) map[string]string {
			exp := map[string]string{}
			for _, f := range []string{"cfg.txt", "d/note.txt", "empty"} {
				c := "short:" + f
				if long {
					c = strings.Repeat("a much longer first version of "+f+"\n", 3)
				}
				if f == "empty" && !long {
					c = ""
				}
				must(os.WriteFile(filepath.Join(src, filepath.FromSlash(f)), []byte(c), 0o644))
				exp[filepath.FromSlash(f)] = fmt.Sprintf("%x/%d", sha256.Sum256([]byte(c)), len(c))
			}
			return exp
		}
		evals++
		nontriv++
		var exp map[string]string
		switch variant {
		case 0, 1: // long version first, then the short one over it (1: pre-existing unrelated long file at a target path)
			write(true)
			must(files.ZipFolder(src, filepath.Join(base, "a.zip"), nil, true))
			exp = write(false)
			must(files.ZipFolder(src, filepath.Join(base, "b.zip"), nil, true))
			if variant == 1 {
				must(os.MkdirAll(dst, 0o755))
				must(os.WriteFile(filepath.Join(dst, "cfg.txt"), []byte(strings.Repeat("pre-existing content ", 20)), 0o644))
			} else if err := files.UnzipToFolder(filepath.Join(base, "a.zip"), dst); err != nil {
				fail("reextract unzip-error", err.Error(), nil)
			}
			if err := files.UnzipToFolder(filepath.Join(base, "b.zip"), dst); err != nil {
				fail("reextract unzip-error", err.Error(), nil)
			}
		case 2: // one archive with the same entry twice, the later body shorter: the last one wins, completely
			zf := filepath.Join(base, "dup.zip")
			f, err := os.Create(zf)
			must(err)
			zw := zip.NewWriter(f)
			w, _ := zw.Create("x/note.txt")
			fmt.Fprint(w, "first and much longer body")
			w, _ = zw.Create("x/note.txt")
			fmt.Fprint(w, "second")
			must(zw.Close())
			must(f.Close())
			exp = map[string]string{filepath.FromSlash("x/note.txt"): fmt.Sprintf("%x/%d", sha256.Sum256([]byte("second")), 6)}
			if err := files.UnzipToFolder(zf, dst); err != nil {
				fail("reextract unzip-error", err.Error(), nil)
			}
		}
		got := files_(snapshot(dst))
		for k, v := range exp {
			if got[k] != v {
				b, _ := os.ReadFile(filepath.Join(dst, k))
				fail(fmt.Sprintf("reextract content variant=%d", variant), fmt.Sprintf("variant %d (0: second extraction over the first, 1: over a pre-existing file, 2: duplicate entry): %s holds %d bytes %q instead of the archive's content", variant, k, len(b), string(b)), map[string]any{"variant": variant})
			}
		}
		os.RemoveAll(base)
	}
	samples.Add("re-extraction: a second archive with shorter files over the first extraction, over a pre-existing file, and an archive with a duplicate entry (last one wins, completely)")

	// ---- part 2: confinement for arbitrary archives
	names := []string{"a", "d/a", "../a", "../../a", "d/../../a", "/abs", "..", "./a", "d/", "d", "a/b", `..\a`, "d/../e/../../x",
		// siblings whose names start with the destination's own name ("dest"): a string-prefix test is not a path-prefix test
		"../dest2/a", "../dest-backup/a", "../destx", "d/../../dest.old/a",
		// rooted AND climbing
		"/../a", "/d/../../a"}
	maxEntries := 2
	if run.Thorough() {
		maxEntries = 3
	}
	var rec func(cur []string)
	archNo := 0
	rec = func(cur []string) {
		if len(cur) > 0 {
			archNo++
			base := filepath.Join(scratch, fmt.Sprintf("cf%d", archNo))
			l2 := filepath.Join(base, "l1", "l2")
			dst := filepath.Join(l2, "dest")
			must(os.MkdirAll(dst, 0o755))
			must(os.WriteFile(filepath.Join(base, "sentinel"), []byte("s0"), 0o644))
			must(os.WriteFile(filepath.Join(base, "l1", "a"), []byte("precious-l1"), 0o644))
			must(os.WriteFile(filepath.Join(l2, "a"), []byte("precious-l2"), 0o644))
			must(os.WriteFile(filepath.Join(dst, "keep"), []byte("keep"), 0o644))
			zf := filepath.Join(base, "evil.zip")
			f, err := os.Create(zf)
			must(err)
			zw := zip.NewWriter(f)
			for i, nme := range cur {
				w, err := zw.Create(nme)
				must(err)
				if !strings.HasSuffix(nme, "/") {
					fmt.Fprintf(w, "payload %d", i)
				}
			}
			must(zw.Close())
			must(f.Close())
			before := snapshot(base)
			evals++
			escaping := false
			for _, nme := range cur {
				if strings.Contains(nme, "..") {
					escaping = true
				}
			}
			if escaping {
				nontriv++
			}
			uerr := files.UnzipToFolder(zf, dst)
			after := snapshot(base)
			relDst, _ := filepath.Rel(base, dst)
			var outside []string
			for k, v := range after {
				if k == relDst || strings.HasPrefix(k, relDst+string(filepath.Separator)) {
					continue
				}
				if before[k] != v {
					outside = append(outside, k)
				}
			}
			for k := range before {
				if _, ok := after[k]; !ok && !strings.HasPrefix(k, relDst+string(filepath.Separator)) {
					outside = append(outside, k+" (removed)")
				}
			}
			if len(outside) > 0 {
				sort.Strings(outside)
				// signature: the first entry name that leaves the destination
				var bad string
				for _, nme := range cur {
					if t := filepath.Join(dst, nme); t != dst && !strings.HasPrefix(t, dst+string(filepath.Separator)) {
						bad = nme
						break
					}
				}
				fail("confinement entry="+bad, fmt.Sprintf("archive entries %q extracted into %s (UnzipToFolder returned %v): paths created/modified OUTSIDE the destination: %v", cur, relDst, uerr, outside), map[string]any{"entries": cur})
			}
			if archNo%97 == 1 {
				samples.Add(fmt.Sprintf("archive %q -> err=%v, outside changes=%d", cur, uerr != nil, len(outside)))
			}
			os.RemoveAll(base)
		}
		if len(cur) == maxEntries {
			return
		}
		for _, nme := range names {
			dup := false
			for _, c := range cur {
				if c == nme {
					dup = true
				}
			}
			if dup {
				continue
			}
			rec(append(cur[:len(cur):len(cur)], nme))
		}
	}
	rec(nil)
	run.Assume = []string{"runs on a real scratch directory created with mktemp and removed afterwards; symlinks inside archives are not generated (archive/zip entries are written as regular files)"}
	run.Finish(ev.Coverage{
		"evaluations": evals, "distinct_nontrivial": nontriv, "samples": samples.List, "exhaustive": true, "archives": archNo, "roundtrip_cases": caseNo,
		"rule": "round trip: subsets of a 10-path universe (root file, empty file, 70001 bytes of binary content, d/f, d/e/f, names with space/dots/unicode/leading dot, a *.skip file; plus an empty directory) x 5 filters x recursive flag, ZipFolder -> UnzipToFolder -> extracted tree must equal exactly the selected files byte for byte (thorough: all 1024 subsets); the cases re-use three destination paths that are wiped in between; confinement: every archive of <= 2 (thorough 3) distinct entries from 19 adversarial names ('..' segments, absolute path, rooted and climbing, '..', './a', directory entry, file/dir clashes, backslash), snapshot (path, hash) of the scratch tree three levels above the destination before/after: only paths under the destination may differ whatever UnzipToFolder returns. non-trivial = round trips selecting >= 1 file, archives with a '..' entry",
	})
}
