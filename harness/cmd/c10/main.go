// C10 - ordered map: iteration stays correct under any mutation history.
package main

import (
	"fmt"
	"time"

	"verifh/internal/bfs"
	"verifh/internal/ev"
	"verifh/internal/maph"
)

func main() {
	run := ev.Parse("C10", "model_checking")
	type cfg struct{ keys, vals, iters int }
	cfgs := []cfg{{3, 1, 2}, {2, 2, 2}, {2, 1, 3}}
	deadline := time.Now().Add(3 * time.Minute)
	if run.Thorough() {
		cfgs = []cfg{{3, 2, 2}, {2, 2, 3}, {4, 1, 2}}
		deadline = time.Now().Add(12 * time.Minute)
	}
	if run.Replay != "" {
		var rp struct {
			Keys, Values, Iterators int
			Path                    []maph.Op
		}
		if _, _, err := run.LoadReplay(&rp); err != nil {
			ev.Infra("replay: %v", err)
		}
		fmt.Println("replaying:", maph.FormatPath(rp.Path))
		_, _, v := maph.Spec(rp.Keys, rp.Values, rp.Iterators, nil).Run(rp.Path)
		if v != nil {
			run.ReplayVerdict("map "+v.Sig, v.Detail)
		}
		run.ReplayVerdict("", "")
	}
	var samples ev.Samples
	states, trans := 0, int64(0)
	fix := true
	per := []any{}
	for _, c := range cfgs {
		sp := maph.Spec(c.keys, c.vals, c.iters, nil)
		sp.Deadline = deadline
		st, found := bfs.Explore(sp)
		states += st.States
		trans += st.Transitions
		fix = fix && st.Fixpoint
		per = append(per, map[string]any{"keys": c.keys, "values": c.vals, "iterators": c.iters, "states": st.States, "transitions": st.Transitions, "depth": st.Depth, "fixpoint": st.Fixpoint, "capped": st.Capped, "states_per_depth": st.PerDepth})
		for _, f := range found {
			run.Violation("map "+f.V.Sig, f.V.Detail+"\nhistory: "+maph.FormatPath(f.Path), map[string]any{"keys": c.keys, "values": c.vals, "iterators": c.iters, "ops": maph.FormatPath(f.Path), "path": f.Path})
		}
		samples.Add(fmt.Sprintf("keys=%d values=%d iterators<=%d: states=%d transitions=%d depth=%d fixpoint=%v", c.keys, c.vals, c.iters, st.States, st.Transitions, st.Depth, st.Fixpoint))
	}
	// long deterministic histories (free lists, rings, batches of a fixed size have to be outgrown): 40 keys filled, drained
	// and filled again, read back through Get / First / a full iteration after every phase; and one key re-added 40 times
	// while an open iterator pins each removed generation
	long := func(name string, keys, iters int, script func(do func(maph.Op))) {
		s := maph.New(keys, 1, iters)
		n := 0
		failed := false
		script(func(o maph.Op) {
			if failed {
				return
			}
			n++
			if sig, det := s.Apply(o); sig != "" {
				failed = true
				run.Violation("map-long "+sig, fmt.Sprintf("%s, step %d: %s", name, n, det), map[string]any{"script": name, "step": n})
			}
		})
		trans += int64(n)
		samples.Add(fmt.Sprintf("long history %q: %d operations", name, n))
	}
	long("fill 40, drain, fill 40", 40, 2, func(do func(maph.Op)) {
		readBack := func() {
			do(maph.Op{K: "len"})
			do(maph.Op{K: "first"})
			do(maph.Op{K: "iter", A: 0})
			for i := 0; i < 42; i++ {
				do(maph.Op{K: "has", A: 0})
				do(maph.Op{K: "next", A: 0})
			}
			do(maph.Op{K: "close", A: 0})
			for k := 0; k < 40; k++ {
				do(maph.Op{K: "get", A: k})
			}
		}
		for round := 0; round < 3; round++ {
			for k := 0; k < 40; k++ {
				do(maph.Op{K: "add", A: k, V: 1})
			}
			readBack()
			for k := 39; k >= 0; k-- {
				do(maph.Op{K: "rem", A: k})
			}
			readBack()
		}
	})
	long("one key, 40 generations each pinned by an iterator", 1, 41, func(do func(maph.Op)) {
		for g := 0; g < 40; g++ {
			do(maph.Op{K: "add", A: 0, V: 1})
			do(maph.Op{K: "iter", A: g})
			do(maph.Op{K: "has", A: g})
			do(maph.Op{K: "rem", A: 0})
		}
		do(maph.Op{K: "add", A: 0, V: 1})
		do(maph.Op{K: "get", A: 0})
		do(maph.Op{K: "first"})
		for g := 0; g < 40; g++ {
			do(maph.Op{K: "next", A: g})
			do(maph.Op{K: "close", A: g})
		}
		for g := 0; g < 40; g++ {
			do(maph.Op{K: "rem", A: 0})
			do(maph.Op{K: "add", A: 0, V: 1})
		}
		do(maph.Op{K: "get", A: 0})
		do(maph.Op{K: "len"})
		do(maph.Op{K: "first"})
	})
	samples.Add("example history: Add(a,0); Iterator; Remove(a); Add(a,1); Next(it0); Close(it0); First")
	run.Assume = []string{"nodes parked in the map's sync.Pool are not part of the state key; a recycled node only matters through a stale refCnt, which the refCnt invariant pins to the number of parked iterators in every state"}
	run.Finish(ev.Coverage{
		"states": states, "transitions": trans, "traces_validated_against_impl": trans, "samples": samples.List,
		"exhaustive": fix, "fixpoint": fix, "searches": per,
		"rule": "BFS over all histories of {Add(k,v), Remove(k), Get(k), Len, First, Iterator, HasNext(i), Next(i), Close(i)} until no new canonical state (node list with state/key/value/refCnt, iterator positions, model) appears; every transition replays the history on a fresh real Map and compares each result with an append-only-log + cursor model and checks structural invariants through the accessor",
	})
}
