// raceaudit: free-running stress bodies for the race detector.
//
// The cooperative scheduler of Engine S cannot see unsynchronised accesses (its hand-offs are
// happens-before edges), so the data-race-freedom assumption of the Engine-S checks is audited
// separately: the same kinds of operations are run by real goroutines on the UNREWRITTEN code in a
// -race build. A race report is a true positive; silence is only an assumption that was not refuted.
package main

import (
	"context"
	"flag"
	"fmt"
	"os"
	"sync"
	"sync/atomic"
	"time"

	gbytes "github.com/acquirecloud/golibs/container/bytes"
	"github.com/acquirecloud/golibs/container/lru"
	"github.com/acquirecloud/golibs/kvs"
	dist "github.com/acquirecloud/golibs/kvs/distlock"
	"github.com/acquirecloud/golibs/kvs/inmem"
	"github.com/acquirecloud/golibs/timeout"
	"github.com/acquirecloud/golibs/ulidutils"
)

func stress(d time.Duration, workers int, body func(w, i int)) int64 {
	var n atomic.Int64
	var wg sync.WaitGroup
	stop := time.Now().Add(d)
	for w := 0; w < workers; w++ {
		wg.Add(1)
		go func(w int) {
			defer wg.Done()
			for i := 0; time.Now().Before(stop); i++ {
				body(w, i)
				n.Add(1)
			}
		}(w)
	}
	wg.Wait()
	return n.Load()
}

func main() {
	pkg := flag.String("pkg", "inmem", "inmem|lru|blocks|timeout|distlock")
	dur := flag.Duration("dur", 3*time.Second, "duration")
	flag.Parse()
	ctx := context.Background()
	var n int64
	switch *pkg {
	case "inmem":
		st := inmem.New()
		keys := []string{"a", "b"}
		n = stress(*dur, 8, func(w, i int) {
			k := keys[(w+i)%2]
			switch (w + i) % 9 {
			case 0:
				st.Create(ctx, kvs.Record{Key: k, Value: []byte("v")})
			case 1:
				st.Get(ctx, k)
			case 2:
				st.Put(ctx, kvs.Record{Key: k, Value: []byte("v")})
			case 3:
				r, err := st.Get(ctx, k)
				if err == nil {
					r.Value = []byte("c")
					st.CasByVersion(ctx, r)
				}
			case 4:
				st.Delete(ctx, k)
			case 5:
				st.PutMany(ctx, []kvs.Record{{Key: "a"}, {Key: "b"}})
			case 6:
				st.GetMany(ctx, "a", "b")
			case 7:
				it, _ := st.ListKeys(ctx, "*")
				for it.HasNext() {
					it.Next()
				}
			case 8:
				c, cancel := context.WithTimeout(ctx, 200*time.Microsecond)
				r, err := st.Get(ctx, k)
				if err == nil {
					st.WaitForVersionChange(c, k, r.Version)
				}
				cancel()
			}
		})
	case "ulid":
		// version freshness rests on the id generator being safe for concurrent use and never repeating
		var mu sync.Mutex
		seen := map[string]bool{}
		n = stress(*dur, 8, func(w, i int) {
			ids := make([]string, 64)
			for k := range ids {
				ids[k] = ulidutils.NewID()
			}
			mu.Lock()
			for _, id := range ids {
				if seen[id] {
					fmt.Println("DUPLICATE VERSION ID handed out by concurrent NewID calls:", id)
					os.Exit(67)
				}
				seen[id] = true
			}
			if len(seen) > 2_000_000 {
				seen = map[string]bool{}
			}
			mu.Unlock()
		})
	case "lru":
		var serial atomic.Int64
		c, _ := lru.NewCache[int, int64](2, func(k int) (int64, error) {
			if serial.Add(1)%7 == 0 {
				return 0, fmt.Errorf("fail")
			}
			return serial.Load(), nil
		}, func(k int, v int64) {})
		n = stress(*dur, 8, func(w, i int) {
			switch (w + i) % 5 {
			case 0, 1, 2:
				c.GetOrCreate((w + i) % 4)
			case 3:
				c.Remove(i % 4)
			case 4:
				c.Clear()
			}
		})
	case "blocks":
		buf := gbytes.NewInMemBytes(4 * 132)
		b, err := gbytes.NewBlocks(4, buf, true)
		if err != nil {
			panic(err)
		}
		n = stress(*dur, 8, func(w, i int) {
			idx, err := b.ArrangeBlock()
			if err == nil {
				blk, _ := b.Block(idx)
				for k := range blk {
					blk[k] = byte(w)
				}
				b.Available()
				b.FreeBlock(idx)
			}
		})
	case "timeout":
		n = stress(*dur, 8, func(w, i int) {
			var hit atomic.Int32
			f := timeout.Call(func() { hit.Add(1) }, time.Duration(i%3)*100*time.Microsecond)
			if i%2 == 0 {
				f.Cancel()
			}
			if i%64 == 0 {
				time.Sleep(time.Millisecond)
			}
		})
	case "distlock":
		st := inmem.New()
		p1 := dist.NewKvsLockProvider(st, "/l/")
		p2 := dist.NewKvsLockProvider(st, "/l/")
		lks := []interface {
			Lock()
			Unlock()
			TryLock(context.Context) bool
			LockWithCtx(context.Context) error
		}{p1.NewLocker("x"), p1.NewLocker("x"), p2.NewLocker("x")}
		var inCS atomic.Int32
		n = stress(*dur, 6, func(w, i int) {
			lk := lks[w%3]
			switch i % 3 {
			case 0:
				lk.Lock()
			case 1:
				if !lk.TryLock(ctx) {
					return
				}
			case 2:
				c, cancel := context.WithTimeout(ctx, time.Millisecond)
				err := lk.LockWithCtx(c)
				cancel()
				if err != nil {
					return
				}
			}
			if inCS.Add(1) != 1 {
				fmt.Println("MUTUAL EXCLUSION BROKEN in free-running audit")
				os.Exit(67)
			}
			inCS.Add(-1)
			lk.Unlock()
		})
	default:
		fmt.Println("unknown pkg")
		os.Exit(2)
	}
	fmt.Printf("raceaudit %s: %d operations in %v, no race reported\n", *pkg, n, *dur)
}
