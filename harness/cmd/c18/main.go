// C18 - iterator mixer is a faithful two-way merge.
package main

import (
	"fmt"

	"github.com/acquirecloud/golibs/container/iterable"
	"verifh/internal/bfs"
	"verifh/internal/ev"
)

// src is a slice iterator whose position is visible to the harness.
type src struct {
	s   []int
	idx int
}

func (s *src) HasNext() bool { return s.idx < len(s.s) }
func (s *src) Next() (int, bool) {
	if s.idx < len(s.s) {
		s.idx++
		return s.s[s.idx-1], true
	}
	return 0, false
}
func (s *src) Close() error { return nil }

type rsrc struct{ src }

func (s *rsrc) Reset() error { s.idx = 0; return nil }

// gsrc is an input over a "live collection" whose last element disappears between HasNext and Next: the
// Iterator contract allows HasNext()==true followed by Next()==(zero,false). The ghost contributes nothing.
type gsrc struct {
	src
	ghostUsed bool
}

func (s *gsrc) HasNext() bool { return s.idx < len(s.s) || !s.ghostUsed }
func (s *gsrc) Next() (int, bool) {
	if s.idx < len(s.s) {
		s.idx++
		return s.s[s.idx-1], true
	}
	s.ghostUsed = true
	return 0, false
}
func (s *gsrc) Reset() error { s.idx, s.ghostUsed = 0, false; return nil }

type selector struct {
	name string
	f    func(a, b int) bool
}

var selectors = []selector{
	{"<", func(a, b int) bool { return a < b }},
	{"<=", func(a, b int) bool { return a <= b }},
	{"first", func(a, b int) bool { return true }},
	{"second", func(a, b int) bool { return false }},
	{">", func(a, b int) bool { return a > b }},
}

type cfg struct {
	a, b []int
	sel  int
	kind int // 0 own resettable, 1 WrapIntSlice, 2 second input not resettable, 3 first input not resettable
}

type sys struct {
	c      cfg
	m      iterable.Mixer[int]
	s1, s2 *src
	p1, p2 int
	i1, i2 iterable.Iterator[int]
	selBad string
	dead   bool // after a failed Reset nothing more is specified
	g      *gsrc
}

func newSys(c cfg) *sys {
	s := &sys{c: c}
	s.init()
	return s
}

// init (re-)initialises the mixer with fresh input iterators over the same sequences: Init must discard
// whatever state an earlier use left in the Mixer value
func (s *sys) init() {
	c := s.c
	s.p1, s.p2, s.g = 0, 0, nil
	var i1, i2 iterable.Iterator[int]
	switch c.kind {
	case 0:
		r1, r2 := &rsrc{src{s: c.a}}, &rsrc{src{s: c.b}}
		s.s1, s.s2 = &r1.src, &r2.src
		i1, i2 = r1, r2
	case 1:
		i1, i2 = iterable.WrapIntSlice(append([]int{}, c.a...)), iterable.WrapIntSlice(append([]int{}, c.b...))
	case 6:
		// an empty sequence handed over as a nil slice is an empty, resettable sequence like any other
		nilIfEmpty := func(x []int) []int {
			if len(x) == 0 {
				return nil
			}
			return append([]int{}, x...)
		}
		i1, i2 = iterable.WrapIntSlice(nilIfEmpty(c.a)), iterable.WrapIntSlice(nilIfEmpty(c.b))
	case 2:
		r1, r2 := &rsrc{src{s: c.a}}, &src{s: c.b}
		s.s1, s.s2 = &r1.src, r2
		i1, i2 = r1, r2
	case 3:
		r1, r2 := &src{s: c.a}, &rsrc{src{s: c.b}}
		s.s1, s.s2 = r1, &r2.src
		i1, i2 = r1, r2
	case 4:
		r1, r2 := &gsrc{src: src{s: c.a}}, &rsrc{src{s: c.b}}
		s.s1, s.s2 = &r1.src, &r2.src
		s.g = r1
		i1, i2 = r1, r2
	case 5:
		r1, r2 := &rsrc{src{s: c.a}}, &gsrc{src: src{s: c.b}}
		s.s1, s.s2 = &r1.src, &r2.src
		s.g = r2
		i1, i2 = r1, r2
	}
	s.i1, s.i2 = i1, i2
	// the selector is only defined on real elements: the mixer may consult it only with the current heads of two inputs
	// that both still have one (a selector over richer element types would dereference what it is given)
	strict := c.kind == 0 || c.kind == 1 || c.kind == 6
	s.m.Init(func(x, y int) bool {
		if strict && s.selBad == "" {
			switch {
			case s.p1 >= len(c.a) || s.p2 >= len(c.b):
				s.selBad = fmt.Sprintf("the selector was consulted with (%d,%d) although an input has no element left (emitted %d of %d and %d of %d)", x, y, s.p1, len(c.a), s.p2, len(c.b))
			case x != c.a[s.p1] || y != c.b[s.p2]:
				s.selBad = fmt.Sprintf("the selector was consulted with (%d,%d), the heads of the inputs are (%d,%d)", x, y, c.a[s.p1], c.b[s.p2])
			}
		}
		return selectors[c.sel].f(x, y)
	}, i1, i2)
}

func (s *sys) modelNext() (int, bool) {
	a, b := s.c.a, s.c.b
	if s.p1 < len(a) && (s.p2 >= len(b) || selectors[s.c.sel].f(a[s.p1], b[s.p2])) {
		s.p1++
		return a[s.p1-1], true
	}
	if s.p2 < len(b) {
		s.p2++
		return b[s.p2-1], true
	}
	return 0, false
}

// ops: H HasNext, N Next, R Reset, HH HasNext twice (idempotence)
func (s *sys) apply(o byte) (sig, detail string) {
	defer func() {
		if r := recover(); r != nil {
			sig, detail = "panic", fmt.Sprintf("op %c panicked: %v", o, r)
		}
		if sig == "" && s.selBad != "" && !s.dead {
			sig, detail = "selector-misuse", fmt.Sprintf("during op %c: %s", o, s.selBad)
		}
	}()
	switch o {
	case 'H':
		want := s.p1 < len(s.c.a) || s.p2 < len(s.c.b)
		g1 := s.m.HasNext()
		g2 := s.m.HasNext()
		if g1 != g2 {
			return "hasnext-not-idempotent", fmt.Sprintf("HasNext()=%v then %v", g1, g2)
		}
		if g1 != want {
			if s.g != nil && g1 && !want {
				// documented imparity: the input claimed an element that vanished; HasNext may have been true at
				// that instant. It must not stay true: the next HasNext/Next sees the end.
				if s.m.HasNext() {
					return "hasnext-ghost", "HasNext() stays true although the vanished element was already reported missing"
				}
				return "", ""
			}
			return "hasnext", fmt.Sprintf("HasNext()=%v, reference merge has next=%v (p1=%d p2=%d)", g1, want, s.p1, s.p2)
		}
	case 'N':
		v, ok := s.m.Next() // (before the model moves: the selector oracle looks at the model's positions)
		wv, wok := s.modelNext()
		if ok != wok || (ok && v != wv) || (!ok && v != 0) {
			return "next", fmt.Sprintf("Next()=(%d,%v), reference merge gives (%d,%v)", v, ok, wv, wok)
		}
	case 'I':
		s.init()
	case 'R':
		err := s.m.Reset()
		if s.c.kind == 2 || s.c.kind == 3 {
			if err == nil {
				return "reset-nonresettable", "Reset returned nil although an input cannot be reset"
			}
			s.dead = true
			return "", ""
		}
		if err != nil {
			return "reset", fmt.Sprintf("Reset returned %v with two resettable inputs", err)
		}
		s.p1, s.p2 = 0, 0
	}
	return "", ""
}

func (s *sys) key() string {
	st, l1, l2 := iterable.VerifMixerState(&s.m)
	i1, i2 := -1, -1
	if s.s1 != nil {
		i1, i2 = s.s1.idx, s.s2.idx
	}
	gh := false
	if s.g != nil {
		gh = s.g.ghostUsed
	}
	// the whole Mixer value is part of the key (every field it has, inputs by identity): a state is merged with an
	// earlier one only if the implementation itself cannot tell them apart
	return fmt.Sprintf("%d %v %v %d %d %d %d %v %v | %s", st, l1, l2, i1, i2, s.p1, s.p2, s.dead, gh, iterable.VerifMixerDump(&s.m, s.i1, s.i2))
}

func seqs(maxLen int) [][]int {
	r := [][]int{{}}
	prev := [][]int{{}}
	for l := 1; l <= maxLen; l++ {
		var cur [][]int
		for _, p := range prev {
			for v := 1; v <= 3; v++ {
				cur = append(cur, append(append([]int{}, p...), v))
			}
		}
		r = append(r, cur...)
		prev = cur
	}
	return r
}

func main() {
	run := ev.Parse("C18", "model_checking")
	maxLen := 3
	if run.Thorough() {
		maxLen = 4
	}
	ss := seqs(maxLen)
	states, trans := 0, int64(0)
	fix := true
	cfgs := 0
	var samples ev.Samples
	for _, a := range ss {
		for _, b := range ss {
			for sel := range selectors {
				for kind := 0; kind < 7; kind++ {
					if kind >= 1 && (len(a) > 2 || len(b) > 2) && !run.Thorough() {
						continue
					}
					if kind == 6 && len(a) > 0 && len(b) > 0 {
						continue // differs from kind 1 only for an empty input
					}
					c := cfg{a, b, sel, kind}
					sp := bfs.Spec[byte]{
						Workers: 1,
						Run: func(path []byte) (string, []byte, *bfs.Violation) {
							s := newSys(c)
							for _, o := range path {
								if sig, det := s.apply(o); sig != "" {
									return "", nil, &bfs.Violation{Sig: sig, Detail: det}
								}
							}
							if s.dead {
								return s.key(), nil, nil
							}
							return s.key(), []byte{'H', 'N', 'R', 'I'}, nil
						},
					}
					st, found := bfs.Explore(sp)
					cfgs++
					states += st.States
					trans += st.Transitions
					fix = fix && st.Fixpoint
					for _, f := range found {
						run.Violation("mixer "+f.V.Sig+" sel="+selectors[sel].name+fmt.Sprintf(" kind=%d", kind), fmt.Sprintf("inputs %v / %v selector %s source-kind %d calls %s: %s", a, b, selectors[sel].name, kind, string(f.Path), f.V.Detail), map[string]any{"a": a, "b": b, "selector": selectors[sel].name, "kind": kind, "calls": string(f.Path)})
					}
					if cfgs%977 == 1 {
						samples.Add(fmt.Sprintf("inputs %v/%v selector %s kind %d: %d states depth %d", a, b, selectors[sel].name, kind, st.States, st.Depth))
					}
					if run.NewViolations() > 5 {
						goto done
					}
				}
			}
		}
	}
done:
	run.Finish(ev.Coverage{
		"states": states, "transitions": trans, "traces_validated_against_impl": trans, "samples": samples.List,
		"exhaustive": fix, "fixpoint": fix, "configurations": cfgs,
		"rule": fmt.Sprintf("for every pair of input sequences of length <= %d over {1,2,3} (sorted and unsorted), every selector in {<, <=, always-first, always-second, >} and every source kind (harness iterators, WrapIntSlice over non-nil and nil slices, first/second input not resettable, first/second input whose last element vanishes between HasNext and Next): BFS over all call patterns of {HasNext(x2), Next, Reset, Init again on the used Mixer value} to a fixpoint of (mixer selector state, look-ahead flags, source positions, model positions); oracle: two-pointer reference merge, HasNext idempotent and equal to the ok of the following Next, Reset restarts", maxLen),
	})
}
