// C11 - ordered map and LRU cache retain nothing beyond live entries.
package main

import (
	"fmt"
	"time"

	"github.com/acquirecloud/golibs/container/lru"
	"github.com/acquirecloud/golibs/zverif/vsched"
	"verifh/internal/bfs"
	"verifh/internal/ev"
	"verifh/internal/lruh"
	"verifh/internal/maph"
)

func main() {
	run := ev.Parse("C11", "model_checking")
	deadline := time.Now().Add(4 * time.Minute)
	maxCap := 4
	mapCfg := [][3]int{{3, 1, 2}, {2, 1, 3}}
	if run.Thorough() {
		deadline = time.Now().Add(12 * time.Minute)
		maxCap = 5
		mapCfg = [][3]int{{3, 2, 2}, {2, 2, 3}, {4, 1, 2}}
	}
	var samples ev.Samples
	states, trans := 0, int64(0)
	fix := true
	per := []any{}
	// part 1: the ordered map - in every reachable state with no open iterator, reachable nodes == Len()+1
	for _, c := range mapCfg {
		quiescent := 0
		sp := maph.Spec(c[0], c[1], c[2], func(s *maph.Sys, o maph.Op) (string, string) {
			if s.OpenIters() != 0 {
				return "", ""
			}
			nodes, _, _ := s.Dump()
			live := 0
			for _, n := range nodes {
				if n.RefCnt != 0 {
					return "map retention:refcnt", fmt.Sprintf("after %v with every iterator closed node (state %d key %d) has refCnt %d", o, n.State, n.Key, n.RefCnt)
				}
				if n.State == 1 {
					live++
				}
			}
			if len(nodes) != live+1 {
				return "map retention:nodes", fmt.Sprintf("after %v with every iterator closed %d nodes are reachable from head for %d live entries: %v", o, len(nodes), live, nodes)
			}
			return "", ""
		})
		_ = quiescent
		sp.Deadline = deadline
		st, found := bfs.Explore(sp)
		states += st.States
		trans += st.Transitions
		fix = fix && st.Fixpoint
		per = append(per, map[string]any{"structure": "iterable.Map", "keys": c[0], "values": c[1], "iterators": c[2], "states": st.States, "transitions": st.Transitions, "depth": st.Depth, "fixpoint": st.Fixpoint, "capped": st.Capped})
		for _, f := range found {
			run.Violation(f.V.Sig, f.V.Detail+"\nhistory: "+maph.FormatPath(f.Path), map[string]any{"structure": "map", "ops": maph.FormatPath(f.Path)})
		}
		samples.Add(fmt.Sprintf("map keys=%d iterators<=%d: states=%d depth=%d fixpoint=%v", c[0], c[2], st.States, st.Depth, st.Fixpoint))
	}
	// part 2: the LRU front-ends - after every operation of every history
	for _, kind := range []string{"cache", "ecache", "ecacheptr", "expirable"} {
		for capa := 1; capa <= maxCap; capa++ {
			kind, capa := kind, capa
			keys := capa + 1
			if (kind == "ecache" || kind == "ecacheptr") && capa >= 3 && !run.Thorough() {
				keys = capa
			}
			al := lruh.New(kind, capa, keys).Alphabet()
			sp := bfs.Spec[lruh.Op]{
				MaxStates: 400000,
				Deadline:  deadline,
				Run: func(path []lruh.Op) (string, []lruh.Op, *bfs.Violation) {
					s := lruh.New(kind, capa, keys)
					for i, o := range path {
						sig, det := s.Apply(o)
						if sig != "" {
							// functional mismatches belong to C08; here only retention and the capacity bound are judged
							if csig, cdet := s.OverCapacity(o); csig != "" && i == len(path)-1 {
								return "", nil, &bfs.Violation{Sig: csig, Detail: cdet}
							}
							return "", nil, nil
						}
						sig, det = s.Retention(o)
						if sig != "" {
							if i != len(path)-1 {
								return "", nil, &bfs.Violation{Sig: "nondeterministic-replay", Detail: det}
							}
							return "", nil, &bfs.Violation{Sig: sig, Detail: det}
						}
					}
					return s.Key(), al, nil
				},
			}
			st, found := bfs.Explore(sp)
			states += st.States
			trans += st.Transitions
			fix = fix && st.Fixpoint
			per = append(per, map[string]any{"structure": "lru " + kind, "capacity": capa, "states": st.States, "transitions": st.Transitions, "depth": st.Depth, "fixpoint": st.Fixpoint, "capped": st.Capped})
			for _, f := range found {
				run.Violation("lru "+f.V.Sig, f.V.Detail+"\nhistory: "+lruh.FormatPath(f.Path), map[string]any{"structure": "lru", "front_end": kind, "capacity": capa, "ops": lruh.FormatPath(f.Path)})
			}
			samples.Add(fmt.Sprintf("lru %s capacity=%d: states=%d depth=%d fixpoint=%v %s", kind, capa, st.States, st.Depth, st.Fixpoint, st.Capped))
		}
	}
	// part 3: the capacity bound under overlapping creations (controlled scheduler, every schedule within P<=2):
	// "an LRU cache holds at most its capacity" must not depend on creations being serialised
	cs, ct, cfound := concurrentBursts()
	states += cs
	trans += ct
	for _, f := range cfound {
		run.Violation(f[0], f[1], map[string]any{"scenario": f[2]})
	}
	samples.Add(fmt.Sprintf("concurrent bursts: 2-3 threads creating distinct keys with overlapping create callbacks, capacities 1-2, P<=2: %d schedule-tree nodes", cs))
	run.Assume = []string{"nodes parked in sync.Pool are not counted: the property speaks of what is reachable from the list head"}
	run.Finish(ev.Coverage{
		"states": states, "transitions": trans, "traces_validated_against_impl": trans, "samples": samples.List,
		"exhaustive": fix, "fixpoint": fix, "searches": per,
		"rule": "same state graphs as C10 (ordered map) and C08 (LRU front-ends), explored to a fixpoint of the canonical state, which contains the node list reachable from the list head: a leak makes the state grow and the search cannot close. Part 3: 2-3 threads with overlapping creations under the controlled scheduler (P<=2): the capacity bound holds after the burst. Oracle: in every map state with no open iterator, and after every LRU operation, nodes reachable from head == live entries + 1, no removed-but-linked node, every refCnt 0, First() visits one node",
	})
}

func concurrentBursts() (int, int64, [][3]string) {
	fine := vsched.Mask(vsched.KLock, vsched.KChan, vsched.KEnv)
	var found [][3]string
	nodes, steps := 0, int64(0)
	for _, capa := range []int{1, 2} {
		for threads := 2; threads <= 3; threads++ {
			for _, rounds := range []int{1, 2} {
				if threads == 3 && rounds == 2 {
					continue
				}
				capa, threads, rounds := capa, threads, rounds
				name := fmt.Sprintf("capacity=%d threads=%d creations-per-thread=%d", capa, threads, rounds)
				var problem string
				scenario := func() {
					problem = ""
					c, err := lru.NewCache[int, int](capa, func(k int) (int, error) {
						vsched.Point(vsched.KEnv, "create", nil)
						return k, nil
					}, func(k, v int) {})
					if err != nil {
						panic(err)
					}
					done := make([]bool, threads)
					for t := 0; t < threads; t++ {
						t := t
						vsched.GoNamed(fmt.Sprintf("t%d", t), func() {
							for r := 0; r < rounds; r++ {
								c.GetOrCreate(t*10 + r)
							}
							done[t] = true
						})
					}
					vsched.WaitFor("all", func() bool {
						for _, d := range done {
							if !d {
								return false
							}
						}
						return true
					})
					nodes, _, _, length, _, dump, _ := lru.VerifItems(c.ECache)
					if length > capa || nodes > capa+1 {
						problem = fmt.Sprintf("%s: after the burst the cache holds %d entries (%d list nodes: %s) for capacity %d", name, length, nodes, dump, capa)
					}
				}
				e := &vsched.Explorer{Cfg: vsched.Config{P: 2, Preempt: fine, MaxSteps: 5000}, Scenario: scenario, StopAtFirst: true,
					Check: func(x *vsched.Exec) (string, *vsched.Violation) {
						if len(x.Panics) > 0 {
							return "panic", &vsched.Violation{Sig: "lru concurrent panic", Detail: x.Panics[0]}
						}
						if problem != "" {
							return "v", &vsched.Violation{Sig: "lru capacity exceeded after overlapping creations", Detail: problem}
						}
						return "ok", nil
					}}
				e.Run()
				if e.InfraErr != "" {
					ev.Infra("%s", e.InfraErr)
				}
				nodes += int(e.Stats.TreeNodes)
				steps += e.Stats.Steps
				if e.Found != nil {
					found = append(found, [3]string{e.Found.Sig, e.Found.Detail, name})
				}
			}
		}
	}
	return nodes, steps, found
}
