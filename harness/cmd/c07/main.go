// C07 - KV storage: WaitForVersionChange never misses or invents a change.
package main

import (
	"context"
	"fmt"
	"sort"
	"strings"
	"time"

	"github.com/acquirecloud/golibs/kvs"
	"github.com/acquirecloud/golibs/kvs/inmem"
	kredis "github.com/acquirecloud/golibs/kvs/redis"
	"github.com/acquirecloud/golibs/zverif/vsched"
	"verifh/internal/ev"
	"verifh/internal/kvh"
	"verifh/internal/sdrv"
)

type waiter struct {
	Key string
	Ver string // current | stale | never | getwait (read the current version first, then wait on it: a late waiter)
}

type mop struct {
	Kind string // put putmany casok casbad delete create reput recas (re*: store the value that is already there - still a new version)
	Key  string
}

func (m mop) String() string { return m.Kind + "(" + m.Key + ")" }

type scen struct {
	backend string
	waiters []waiter
	muts    []mop
	cancel  int // bit i set: waiter i has a canceller pseudo thread
}

func (s scen) String() string {
	var ws, ms []string
	for _, w := range s.waiters {
		ws = append(ws, w.Key+":"+w.Ver)
	}
	for _, m := range s.muts {
		ms = append(ms, m.String())
	}
	return fmt.Sprintf("%s waiters=[%s] mutator=[%s] cancel=%b", s.backend, strings.Join(ws, " "), strings.Join(ms, " "), s.cancel)
}

var backends = map[string]kvh.Backend{}

func backend(name string) kvh.Backend {
	if b, ok := backends[name]; ok {
		return b
	}
	var b kvh.Backend
	if name == "redis" {
		b = kvh.NewRedis(false) // commands are not scheduling points here: the polling waiter is driven by the virtual clock
	} else {
		b = kvh.NewInmem()
	}
	backends[name] = b
	return b
}

type obsT struct {
	h        *kvh.History
	problem  string
	psig     string
	finished []bool
}

func job(sc scen, cfg vsched.Config) sdrv.Job {
	obs := &obsT{}
	scenario := func() {
		*obs = obsT{h: &kvh.History{}, finished: make([]bool, len(sc.waiters))}
		h := obs.h
		be := backend(sc.backend)
		if rb, ok := be.(*kvh.RedisBackend); ok {
			vsched.SetClockForward(rb.FastForward)
		}
		st := be.Fresh()
		ctx := context.Background()
		cur := map[string]string{}
		stale := map[string]string{}
		seq := 0
		curVal := map[string]string{}
		put := func(thread int, key string, same ...bool) {
			seq++
			val := fmt.Sprintf("w%d", seq)
			if len(same) > 0 && curVal[key] != "" {
				val = curVal[key]
			}
			curVal[key] = val
			i := h.Begin(kvh.HOp{Thread: thread, Kind: "put", Key: key, Val: val})
			r, err := st.Put(ctx, kvs.Record{Key: key, Value: []byte(val)})
			h.End(i, "", r.Version, kvh.ErrClass(err))
			if c, ok := cur[key]; ok {
				stale[key] = c
			}
			cur[key] = r.Version
		}
		pre := []string{"a", "b"}
		for _, w := range sc.waiters {
			if w.Key != "a" && w.Key != "b" {
				pre = append(pre, w.Key)
			}
		}
		for _, k := range pre {
			put(90, k)
			put(90, k)
		}
		parked := func() map[string]int {
			if sc.backend == "inmem" {
				return inmem.VerifWaiters(st)
			}
			return nil
		}
		returned := make([]string, len(sc.waiters))
		lateVer := make([]string, len(sc.waiters))
		cancels := make([]context.CancelFunc, len(sc.waiters))
		cancelled := make([]bool, len(sc.waiters))
		for i, w := range sc.waiters {
			i, w := i, w
			wctx, cancel := context.WithCancel(ctx)
			cancels[i] = cancel
			ver := map[string]string{"current": cur[w.Key], "stale": stale[w.Key], "never": "01HZZZZZZZZZZZZZZZZZZZZZZN"}[w.Ver]
			if sc.cancel&(1<<uint(i)) != 0 {
				vsched.Pseudo(fmt.Sprintf("cancel%d", i), nil, func() {
					h.AddComplete(kvh.HOp{Thread: 80 + i, Kind: "cancel", Key: w.Key, Waiter: i, Err: "nil", Call: h.Tick(), Ret: h.Tick()})
					cancelled[i] = true
					cancel()
					vsched.Note("cancel waiter %d", i)
				})
			}
			vsched.GoNamed(fmt.Sprintf("wait%d", i), func() {
				if w.Ver == "getwait" {
					gi := h.Begin(kvh.HOp{Thread: i, Kind: "get", Key: w.Key})
					r, err := st.Get(ctx, w.Key)
					h.End(gi, string(r.Value), r.Version, kvh.ErrClass(err))
					ver = r.Version
					if err != nil {
						ver = "01HZZZZZZZZZZZZZZZZZZZZZZG"
					}
					lateVer[i] = ver
				}
				hi := h.Begin(kvh.HOp{Thread: i, Kind: "wait", Key: w.Key, ExpVer: ver, Waiter: i})
				err := st.WaitForVersionChange(wctx, w.Key, ver)
				h.End(hi, "", "", kvh.ErrClass(err))
				returned[i] = kvh.ErrClass(err)
				obs.finished[i] = true
				vsched.Note("waiter %d (%s,%s) -> %s", i, w.Key, w.Ver, kvh.ErrClass(err))
			})
		}
		mdone := false
		vsched.GoNamed("mut", func() {
			defer func() { mdone = true }()
			for _, m := range sc.muts {
				if sc.backend == "redis" {
					vsched.SleepAlign(3*time.Millisecond, 2*time.Millisecond)
				}
				switch m.Kind {
				case "park":
					// nothing happens for a long time: a waiter that has been parked for seconds still notices the next change promptly
					vsched.Sleep(3 * time.Second)
				case "put":
					put(50, m.Key)
				case "reput":
					put(50, m.Key, true)
				case "putmany":
					// m.Key "a" -> [a]; "ab" -> [a,b]; "ba" -> [b,a] (a batch: every key of it must wake its waiters)
					var ks []string
					for _, c := range m.Key {
						ks = append(ks, string(c))
					}
					var recs []kvs.Record
					var vals []string
					for range ks {
						seq++
						vals = append(vals, fmt.Sprintf("w%d", seq))
					}
					for i, k := range ks {
						recs = append(recs, kvs.Record{Key: k, Value: []byte(vals[i])})
					}
					c := h.Tick()
					err := st.PutMany(ctx, recs)
					r := h.Tick()
					for i, k := range ks {
						h.AddComplete(kvh.HOp{Thread: 50 + i, Kind: "put", Key: k, Val: vals[i], Err: kvh.ErrClass(err), Call: c, Ret: r, Multi: "putmany"})
						if cv, ok := cur[k]; ok {
							stale[k] = cv
						}
						curVal[k] = vals[i]
					}
					for _, k := range ks {
						g, _ := st.Get(ctx, k) // learn the new version (the mutator is the only writer)
						cur[k] = g.Version
						hi := h.Begin(kvh.HOp{Thread: 50, Kind: "get", Key: k})
						h.End(hi, string(g.Value), g.Version, "nil")
					}
				case "casok", "casbad", "recas":
					seq++
					val := fmt.Sprintf("w%d", seq)
					if m.Kind == "recas" && curVal[m.Key] != "" {
						val = curVal[m.Key]
					}
					exp := cur[m.Key]
					if m.Kind == "casbad" || exp == "" {
						exp = "01HZZZZZZZZZZZZZZZZZZZZZZB"
					}
					hi := h.Begin(kvh.HOp{Thread: 50, Kind: "cas", Key: m.Key, Val: val, ExpVer: exp})
					r, err := st.CasByVersion(ctx, kvs.Record{Key: m.Key, Value: []byte(val), Version: exp})
					ov := ""
					if err == nil {
						ov = r.Version
						stale[m.Key] = cur[m.Key]
						cur[m.Key] = r.Version
						curVal[m.Key] = val
					}
					h.End(hi, "", ov, kvh.ErrClass(err))
				case "delete":
					hi := h.Begin(kvh.HOp{Thread: 50, Kind: "delete", Key: m.Key})
					err := st.Delete(ctx, m.Key)
					h.End(hi, "", "", kvh.ErrClass(err))
					if err == nil {
						stale[m.Key] = cur[m.Key]
						delete(cur, m.Key)
						delete(curVal, m.Key)
					}
				case "create":
					seq++
					val := fmt.Sprintf("w%d", seq)
					hi := h.Begin(kvh.HOp{Thread: 50, Kind: "create", Key: m.Key, Val: val})
					v, err := st.Create(ctx, kvs.Record{Key: m.Key, Value: []byte(val)})
					h.End(hi, "", v, kvh.ErrClass(err))
					if err == nil {
						cur[m.Key] = v
						curVal[m.Key] = val
					}
				}
				vsched.Note("mut %v", m)
			}
		})
		// quiescence: the mutator is done and nothing can move any more
		if sc.backend == "redis" {
			vsched.WaitFor("mutator", func() bool { return mdone })
			vsched.Sleep(250 * time.Millisecond) // more than two poll periods (<= 100ms each)
			vsched.AwaitBlocked()
			// a parked waiter holds nothing of the client between two polls: N waiters must not need N connections (any
			// finite pool would then be exhausted by enough waiters, and the writers they wait for could not write)
			if n := kredis.VerifConnsInUse(st); n != 0 && obs.problem == "" {
				obs.psig = "waiter-holds-connection"
				obs.problem = fmt.Sprintf("at quiescence (every remaining waiter parked between two polls) %d pooled connections of the client are checked out", n)
			}
		} else {
			vsched.AwaitIdle()
		}
		// promptness: a waiter that is still blocked must have no reason to return
		for i, w := range sc.waiters {
			if obs.finished[i] {
				continue
			}
			ver := map[string]string{"current": "", "stale": "", "never": ""}[w.Ver]
			_ = ver
			r, err := st.Get(ctx, w.Key)
			reason := ""
			switch {
			case err != nil:
				reason = "the key is absent"
			case w.Ver == "getwait":
				if r.Version != lateVer[i] {
					reason = "the key's version changed after the waiter read it"
				}
			case w.Ver != "current":
				reason = "the key exists with a version different from the given one"
			case cancelled[i]:
				reason = "its context is cancelled"
			default:
				// given version was the version current at start: compare with the version now
				first := ""
				for _, o := range h.Ops {
					if o.Kind == "wait" && o.Waiter == i {
						first = o.ExpVer
					}
				}
				if r.Version != first {
					reason = "the key's version changed"
				}
			}
			if reason != "" && obs.problem == "" {
				obs.psig = "missed-wakeup"
				obs.problem = fmt.Sprintf("waiter %d (%s, %s version) is still blocked at quiescence although %s", i, w.Key, w.Ver, reason)
			}
		}
		// release the remaining waiters; they must return the context's error
		for i := range sc.waiters {
			if !obs.finished[i] {
				h.AddComplete(kvh.HOp{Thread: 80 + i, Kind: "cancel", Key: sc.waiters[i].Key, Waiter: i, Err: "nil", Call: h.Tick(), Ret: h.Tick()})
				cancelled[i] = true
				cancels[i]()
			}
		}
		vsched.WaitFor("waiters", func() bool {
			for _, f := range obs.finished {
				if !f {
					return false
				}
			}
			return true
		})
		if tbl := parked(); len(tbl) != 0 && obs.problem == "" {
			var ks []string
			for k, n := range tbl {
				ks = append(ks, fmt.Sprintf("%s:%d", k, n))
			}
			sort.Strings(ks)
			obs.psig = "waiter-table-residue"
			obs.problem = "every waiter has returned but the waiter table still holds " + strings.Join(ks, ",")
		}
		for _, c := range cancels {
			c()
		}
	}
	return sdrv.Job{
		Name: fmt.Sprintf("%s P=%d", sc, cfg.P), Cfg: cfg, Scenario: scenario,
		Check: func(x *vsched.Exec) (string, *vsched.Violation) {
			if len(x.Panics) > 0 {
				return "panic", &vsched.Violation{Sig: sc.backend + " panic", Detail: x.Panics[0]}
			}
			if x.Outcome != vsched.Completed {
				return x.Outcome.String(), &vsched.Violation{Sig: sc.backend + " " + x.Outcome.String(), Detail: fmt.Sprintf("execution did not complete (%s): still blocked %v", x.Outcome, x.Blocked)}
			}
			if obs.problem != "" {
				return "violation", &vsched.Violation{Sig: sc.backend + " " + obs.psig, Detail: obs.problem + "\nscenario: " + sc.String()}
			}
			if sig, det := obs.h.Check(); sig != "" {
				return "violation", &vsched.Violation{Sig: sc.backend + " " + sig, Detail: det + "\nscenario: " + sc.String()}
			}
			var oc []string
			for _, o := range obs.h.Ops {
				if o.Kind == "wait" {
					oc = append(oc, o.Err)
				}
			}
			return strings.Join(oc, ","), nil
		},
	}
}

func seqs(alpha []mop, maxLen int) [][]mop {
	r := [][]mop{nil}
	prev := [][]mop{nil}
	for l := 1; l <= maxLen; l++ {
		var cur [][]mop
		for _, p := range prev {
			for _, m := range alpha {
				cur = append(cur, append(append([]mop{}, p...), m))
			}
		}
		r = append(r, cur...)
		prev = cur
	}
	return r
}

func main() {
	run := ev.Parse("C07", "model_checking")
	fine := vsched.Mask(vsched.KLock, vsched.KChan, vsched.KStep, vsched.KEnv, vsched.KSleep)
	var jobs []sdrv.Job
	onA := []mop{{"put", "a"}, {"putmany", "a"}, {"casok", "a"}, {"casbad", "a"}, {"delete", "a"}, {"create", "a"}}
	onAB := append(append([]mop{}, onA...), mop{"put", "b"}, mop{"delete", "b"}, mop{"putmany", "ab"}, mop{"putmany", "ba"})
	onA8 := append(append([]mop{}, onA...), mop{"putmany", "ab"}, mop{"putmany", "ba"})
	vers := []string{"current", "stale", "never"}
	P := 3
	add := func(be string, ws []waiter, muts [][]mop, cancels []int, p int) {
		for _, m := range muts {
			for _, c := range cancels {
				jobs = append(jobs, job(scen{be, ws, m, c}, vsched.Config{P: p, Preempt: fine, MaxSteps: 20000}))
			}
		}
	}
	if !run.Thorough() {
		P = 2
	}
	mlen := 2
	if run.Thorough() {
		mlen = 3
	}
	// one waiter
	for _, v := range vers {
		add("inmem", []waiter{{"a", v}}, seqs(onA, 3), []int{0, 1}, P)
		add("inmem", []waiter{{"a", v}}, seqs(onA8[6:], 1), []int{0}, P)
		add("inmem", []waiter{{"b", v}}, seqs(onA8[6:], 1), []int{0}, P)
	}
	// two waiters
	pairs := [][]waiter{
		{{"a", "current"}, {"a", "current"}}, {{"a", "current"}, {"a", "getwait"}}, {{"a", "current"}, {"a", "stale"}},
		{{"a", "stale"}, {"a", "getwait"}}, {{"a", "getwait"}, {"a", "getwait"}},
	}
	for _, ws := range pairs {
		add("inmem", ws, seqs(onA, mlen), []int{0, 1, 3}, P)
	}
	add("inmem", []waiter{{"a", "current"}, {"b", "current"}}, seqs(onA8[6:], 2), []int{0, 1}, P)
	add("inmem", []waiter{{"a", "current"}, {"b", "current"}}, seqs(onAB, mlen), []int{0, 1, 3}, P)
	if run.Thorough() {
		add("inmem", []waiter{{"a", "getwait"}, {"b", "getwait"}}, seqs(onAB, 2), []int{0, 1, 3}, P)
	}
	// writes that store the value already there (a new version all the same), and a slash-prefixed key
	same := []mop{{"reput", "a"}, {"recas", "a"}, {"put", "a"}, {"delete", "a"}}
	onS := []mop{{"put", "/s"}, {"casok", "/s"}, {"delete", "/s"}, {"create", "/s"}, {"reput", "/s"}}
	add("inmem", []waiter{{"a", "current"}}, seqs(same, 2), []int{0, 1}, P)
	add("inmem", []waiter{{"a", "current"}, {"a", "current"}}, seqs(same[:2], 2), []int{0, 1}, P)
	add("inmem", []waiter{{"a", "getwait"}}, seqs(same[:2], 2), []int{0}, P)
	for _, v := range vers {
		add("inmem", []waiter{{"/s", v}}, seqs(onS, 2), []int{0, 1}, P)
		add("redis", []waiter{{"/s", v}}, seqs(onS, 1), []int{0, 1}, 1)
	}
	add("redis", []waiter{{"a", "current"}}, seqs(same[:2], 2), []int{0, 1}, 1)
	for _, m := range []mop{{"put", "a"}, {"delete", "a"}, {"casok", "a"}} {
		add("redis", []waiter{{"a", "current"}}, [][]mop{{{"park", "a"}, m}}, []int{0}, 1)
	}
	// three waiters
	three := [][]waiter{{{"a", "current"}, {"a", "current"}, {"a", "current"}}, {{"a", "current"}, {"a", "current"}, {"b", "current"}}, {{"a", "current"}, {"a", "stale"}, {"a", "current"}}}
	for _, ws := range three {
		l := 1
		if run.Thorough() {
			l = 2
		}
		p3 := 1
		if run.Thorough() {
			p3 = 2
		}
		add("inmem", ws, seqs(onA, l), []int{0, 1, 6}, p3)
	}
	// redis: polling waiter on the virtual clock
	for _, v := range vers {
		add("redis", []waiter{{"a", v}}, seqs(onA, 2), []int{0, 1}, 1)
	}
	add("redis", []waiter{{"a", "current"}, {"a", "current"}}, seqs(onA, 1), []int{0, 1}, 1)
	budget := 4 * time.Minute
	if run.Thorough() {
		budget = 12 * time.Minute
	}
	sort.SliceStable(jobs, func(a, b int) bool {
		return strings.HasPrefix(jobs[a].Name, "redis") && !strings.HasPrefix(jobs[b].Name, "redis")
	})
	sdrv.Main(run, jobs, sdrv.Options{
		Budget: budget,
		Bounds: map[string]any{"P_inmem": P, "P_three_waiters": "1 quick / 2 thorough", "P_redis": 1, "mutator_len_one_waiter": 3, "mutator_len_two_waiters": mlen},
		Rule:   "scripts: 1..3 waiters on keys a,b with current/stale/never-issued version, one canceller pseudo thread per waiter (fires at any scheduling point), a mutator running every sequence of up to 3 ops over {Put, PutMany, CasByVersion ok, CasByVersion conflict, Delete, Create}; every schedule within the preemption bound with points at the storage mutex and the waiter's select (thorough: every statement outside the mutex). Oracles: (1) every return value is justified at some instant of the call - per-key linearizability (porcupine) with Wait and Cancel as model operations; (2) at quiescence no blocked waiter has a reason to return; (3) released waiters return the context error; (4) the waiter table is empty once every waiter returned. Redis: same scripts with the polling waiter on the virtual clock, quiescence = 250ms after the last mutation",
	})
}
