// C13 - timers: every live future fires; the pool adapts and winds down.
package main

import (
	"fmt"
	"math"
	"os"
	"sort"
	"strings"
	"time"

	"github.com/acquirecloud/golibs/zverif/vsched"
	"verifh/internal/ev"
	"verifh/internal/sdrv"
	"verifh/internal/tmh"
)

const lateBound = time.Microsecond

func judge(sc tmh.Script, obs *tmh.Obs, x *vsched.Exec) (string, *vsched.Violation) {
	ctxt := "\nscript: " + sc.String() + "\nnotes: " + strings.Join(x.Notes, " / ")
	if len(x.Panics) > 0 {
		return "panic", &vsched.Violation{Sig: "panic", Detail: x.Panics[0] + ctxt}
	}
	if x.Outcome != vsched.Completed || !obs.Done {
		return x.Outcome.String(), &vsched.Violation{Sig: "no-quiescence " + x.Outcome.String(), Detail: fmt.Sprintf("the package never went quiescent (%s), still alive: %v", x.Outcome, x.Blocked) + ctxt}
	}
	worst := time.Duration(0)
	for i, f := range obs.F {
		if !f.Called {
			continue
		}
		if len(f.CancelRets) > 0 {
			continue
		}
		if len(f.Starts) != 1 {
			return "v", &vsched.Violation{Sig: "never-fired", Detail: fmt.Sprintf("future #%d (delay %v, scheduled at +%v) was not cancelled but was started %d times by the time the package went quiescent", i, f.Delay, f.CallAt, len(f.Starts)) + ctxt}
		}
		if f.Starts[0] < f.CallAt+f.Delay {
			return "v", &vsched.Violation{Sig: "early", Detail: fmt.Sprintf("future #%d (delay %v, scheduled at +%v) was started at +%v, before it was due", i, f.Delay, f.CallAt, f.Starts[0]) + ctxt}
		}
		if f.Delay > 0 && f.CallRet+f.Delay < f.CallRet {
			continue // never due
		}
		late := f.Starts[0] - (f.CallRet + f.Delay)
		if f.Delay < 0 {
			late = f.Starts[0] - f.CallRet
		}
		if late > worst {
			worst = late
		}
		if late > lateBound {
			return "v", &vsched.Violation{Sig: "late", Detail: fmt.Sprintf("future #%d (delay %v, scheduled at +%v) was started at +%v: %v late although every callback returns at once and CPU is available", i, f.Delay, f.CallAt, f.Starts[0], late) + ctxt}
		}
	}
	if sc.Restart {
		if obs.Q1Watchers != 0 || len(obs.Q1Alive) != 0 {
			return "v", &vsched.Violation{Sig: "no-wind-down", Detail: fmt.Sprintf("with nothing pending the package still has %d workers (goroutines alive: %v)", obs.Q1Watchers, obs.Q1Alive) + ctxt}
		}
		if obs.Q1Heap != 0 {
			return "v", &vsched.Violation{Sig: "heap-residue", Detail: fmt.Sprintf("%d futures queued at quiescence", obs.Q1Heap) + ctxt}
		}
	}
	if obs.EndWatchers != 0 || len(obs.EndAlive) != 0 {
		return "v", &vsched.Violation{Sig: "no-wind-down", Detail: fmt.Sprintf("at the final quiescence the package still has %d workers (goroutines alive: %v)", obs.EndWatchers, obs.EndAlive) + ctxt}
	}
	if obs.EndHeap != 0 {
		return "v", &vsched.Violation{Sig: "heap-residue", Detail: fmt.Sprintf("%d futures queued at the final quiescence", obs.EndHeap) + ctxt}
	}
	if !obs.HeapOKAlways {
		return "v", &vsched.Violation{Sig: "heap-index", Detail: "heap indices inconsistent after " + obs.HeapBad + ctxt}
	}
	bucket := "late<=100ns"
	if worst > 100 {
		bucket = "late<=1us"
	}
	return bucket, nil
}

func job(sc tmh.Script, cfg vsched.Config) sdrv.Job {
	obs := new(tmh.Obs)
	return sdrv.Job{
		Name: fmt.Sprintf("%s P=%d", sc, cfg.P), Cfg: cfg, Scenario: sc.Build(obs),
		Check: func(x *vsched.Exec) (string, *vsched.Violation) { return judge(sc, obs, x) },
	}
}

// expand turns event letters into a caller script. F far, N near, B burst of pool+1 equal deadlines,
// X cancel the oldest future of this caller that is not cancelled yet, G idle gap (3 x idle timeout), Z zero/negative delay
func expand(letters string, pool int, idle time.Duration, next *int) []tmh.Ev {
	var evs []tmh.Ev
	var mine []int
	var nevers []int
	defer func() {}()
	for _, c := range letters {
		switch c {
		case 'I':
			// a future that is never due (maximal duration); it is cancelled at the end of the script and must
			// not keep anything else from firing on time
			evs = append(evs, tmh.Ev{K: "call", F: *next, D: time.Duration(math.MaxInt64)})
			nevers = append(nevers, *next)
			*next++
		case 'F':
			evs = append(evs, tmh.Ev{K: "call", F: *next, D: 10 * idle})
			mine = append(mine, *next)
			*next++
		case 'N':
			evs = append(evs, tmh.Ev{K: "call", F: *next, D: idle / 5})
			mine = append(mine, *next)
			*next++
		case 'Z':
			evs = append(evs, tmh.Ev{K: "call", F: *next, D: -time.Millisecond})
			mine = append(mine, *next)
			*next++
		case 'B':
			// burst of pool+1 futures that are due at once (zero delay): this is what makes the pool grow
			for k := 0; k <= pool; k++ {
				evs = append(evs, tmh.Ev{K: "call", F: *next, D: 0})
				mine = append(mine, *next)
				*next++
			}
		case 'b':
			// burst of pool+1 futures with (nearly) equal deadlines in the future
			for k := 0; k <= pool; k++ {
				evs = append(evs, tmh.Ev{K: "call", F: *next, D: idle / 4})
				mine = append(mine, *next)
				*next++
			}
		case 'X':
			if len(mine) > 0 {
				evs = append(evs, tmh.Ev{K: "cancel", F: mine[0]})
				mine = mine[1:]
			}
		case 'G':
			evs = append(evs, tmh.Ev{K: "sleep", D: 3 * idle})
		case 'E':
			// arrive exactly when an idle worker gives up: two hops of one idle timeout, each aligned with the
			// worker's pending idle timer, so that the next event races the worker's exit
			evs = append(evs, tmh.Ev{K: "sleep", D: idle/4 + idle/20}, tmh.Ev{K: "sleepalign", D: idle, B: idle / 2}, tmh.Ev{K: "sleepalign", D: idle, B: idle / 2})
		case 'S':
			// a quiet period shorter than the idle timeout: the burst has fired, the extra workers are still alive
			evs = append(evs, tmh.Ev{K: "sleep", D: idle / 2})
		case 'H':
			evs = append(evs, tmh.Ev{K: "sleepalign", D: idle, B: idle / 2})
		}
	}
	if len(nevers) > 0 {
		evs = append(evs, tmh.Ev{K: "sleep", D: idle / 2})
		for _, f := range nevers {
			evs = append(evs, tmh.Ev{K: "cancel", F: f})
		}
	}
	return evs
}

func words(alpha string, maxLen int) []string {
	r := []string{""}
	prev := []string{""}
	for l := 1; l <= maxLen; l++ {
		var cur []string
		for _, p := range prev {
			for _, c := range alpha {
				cur = append(cur, p+string(c))
			}
		}
		r = append(r, cur...)
		prev = cur
	}
	return r
}

func main() {
	run := ev.Parse("C13", "model_checking")
	fine := vsched.Mask(vsched.KLock, vsched.KChan, vsched.KEnv, vsched.KSleep, vsched.KStep)
	var jobs []sdrv.Job
	mk := func(ws []string, pool int, idle time.Duration, p int) {
		next := 0
		var threads [][]tmh.Ev
		for _, w := range ws {
			threads = append(threads, expand(w, pool, idle, &next))
		}
		sc := tmh.Script{Threads: threads, Pool: pool, Idle: idle, N: next + 1, Restart: true, RestartDelay: idle / 5}
		jobs = append(jobs, job(sc, vsched.Config{P: p, Preempt: fine, MaxSteps: 40000}))
	}
	idles := []time.Duration{5 * time.Millisecond, 30 * time.Second}
	alpha := "FNBXGES"
	// targeted words with a never-due future (the full product with 'I' is in the thorough tier)
	for _, idle := range idles {
		for _, pool := range []int{1, 2} {
			for _, w := range []string{"IN", "NI", "INN", "IFN", "IBN", "NIF", "ISN"} {
				mk([]string{w}, pool, idle, 1)
			}
			// a handle kept past its firing and cancelled late (a documented no-op) after later, unrelated Calls
			for _, w := range []string{"NGNX", "NSNX", "BGNX", "NGNXN", "NGFX", "ZNX"} {
				mk([]string{w}, pool, idle, 1)
			}
			mk([]string{"I", "N"}, pool, idle, 1)
			mk([]string{"IN", "N"}, pool, idle, 1)
		}
	}
	if !run.Thorough() {
		for _, idle := range idles {
			for _, pool := range []int{1, 2, 3} {
				for _, w := range words(alpha, 3)[1:] {
					p := 2
					if len(w) == 3 || strings.Contains(w, "B") {
						p = 1 // bursts grow the pool (many runnable workers): P=2 for them is in the thorough tier
					}
					mk([]string{w}, pool, idle, p)
				}
			}
			for _, pool := range []int{1, 2} {
				for _, w1 := range words("FNBX", 2)[1:] {
					for _, w2 := range words("FNZ", 1)[1:] {
						p := 2
						if strings.Contains(w1, "B") {
							p = 1
						}
						mk([]string{w1, w2}, pool, idle, p)
					}
				}
			}
		}
	} else {
		for _, idle := range idles {
			for _, pool := range []int{1, 2, 3, 10} {
				for _, w := range words(alpha+"ZbI", 4)[1:] {
					mk([]string{w}, pool, idle, 1)
				}
				for _, w := range words(alpha, 3)[1:] {
					mk([]string{w}, pool, idle, 3)
				}
			}
			for _, pool := range []int{1, 2, 3} {
				for _, w1 := range words("FNBXG", 2)[1:] {
					for _, w2 := range words("FNBXZ", 2)[1:] {
						mk([]string{w1, w2}, pool, idle, 2)
					}
				}
			}
		}
	}
	if w := os.Getenv("C13_DEBUG"); w != "" {
		next := 0
		sc := tmh.Script{Threads: [][]tmh.Ev{expand(w, 2, 5*time.Millisecond, &next)}, Pool: 2, Idle: 5 * time.Millisecond, N: next + 1, Restart: true, RestartDelay: time.Millisecond}
		obs := new(tmh.Obs)
		x := vsched.Replay(vsched.Config{P: 0, Preempt: fine, MaxSteps: 40000}, nil, sc.Build(obs))
		fmt.Println(vsched.FormatTrace(x))
		os.Exit(0)
	}
	sort.SliceStable(jobs, func(a, b int) bool { return len(jobs[a].Name) > len(jobs[b].Name) })
	budget := 4 * time.Minute
	if run.Thorough() {
		budget = 12 * time.Minute
	}
	sdrv.Main(run, jobs, sdrv.Options{
		Budget: budget,
		Bounds: map[string]any{"events": "F far future (10 x idle timeout), N near (idle/5), B burst of pool+1 equal deadlines, X cancel the oldest pending future of the caller, G idle gap of 3 x idle timeout, Z negative delay, I a future with the maximal duration (never due; cancelled at the end of the script)", "sequence_length": "<=3 (thorough 4) for one caller; <=2 + <=1 (thorough <=2 + <=2) for two concurrent callers", "pool_limit": "1..3 (thorough also 10)", "idle_timeout": "5ms and 30s", "P": "2 (1 for sequences of length 3 in the quick tier; thorough 2-3)", "clock": "maximal progress: callbacks return at once and CPU is available"},
		Rule:   "every schedule within the preemption bound of every arrival pattern on the real timeout package (mutex, wake channel, timers, worker spawn are scheduling points; thorough: every statement) with the maximal-progress virtual clock. Oracle: every future that was not cancelled starts exactly once and no later than 1us of virtual time after its fire time; when nothing is pending the package has 0 workers and no goroutine alive, the queue is empty; a Call issued after that quiescence fires again on time (restart); heap indices consistent",
	})
}
