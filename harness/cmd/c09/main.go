// C09 - LRU cache under concurrency: single-flight, linearizable, nothing leaked.
package main

import (
	"errors"
	"fmt"
	"sort"
	"strings"
	"time"

	"github.com/acquirecloud/golibs/container/lru"
	"github.com/acquirecloud/golibs/zverif/vsched"
	"github.com/anishathalye/porcupine"
	"verifh/internal/ev"
	"verifh/internal/sdrv"
)

type cop struct {
	K   byte // G R C
	Key int
}

func (o cop) String() string {
	switch o.K {
	case 'G':
		if o.Key > 25 {
			return fmt.Sprintf("G(k%d)", o.Key)
		}
		return fmt.Sprintf("G(%c)", 'a'+o.Key)
	case 'R':
		if o.Key > 25 {
			return fmt.Sprintf("R(k%d)", o.Key)
		}
		return fmt.Sprintf("R(%c)", 'a'+o.Key)
	}
	return "Clear"
}

type scen struct {
	capa   int
	progs  [][]cop
	prefix []cop // executed sequentially by the main thread before the workers start (non-initial states)
}

func (s scen) String() string {
	var ps []string
	for _, p := range s.progs {
		var os []string
		for _, o := range p {
			os = append(os, o.String())
		}
		ps = append(ps, strings.Join(os, ";"))
	}
	pre := ""
	for _, o := range s.prefix {
		pre += o.String() + ";"
	}
	if pre != "" {
		pre = " prefix=" + pre
	}
	return fmt.Sprintf("cap=%d%s %s", s.capa, pre, strings.Join(ps, " || "))
}

type kv struct{ k, v int }

// hop is one recorded cache call.
type hop struct {
	thread  int
	op      cop
	val     int
	failed  bool
	created bool
	evicted []kv // delete callbacks observed during the call, in order
	removed bool // Remove result
	count   int  // Clear result
	call    int64
	ret     int64
}

func (h hop) String() string {
	switch h.op.K {
	case 'G':
		return fmt.Sprintf("t%d %v -> v%d failed=%v created=%v deleted=%v [%d,%d]", h.thread, h.op, h.val, h.failed, h.created, h.evicted, h.call, h.ret)
	case 'R':
		return fmt.Sprintf("t%d %v -> %v deleted=%v [%d,%d]", h.thread, h.op, h.removed, h.evicted, h.call, h.ret)
	}
	return fmt.Sprintf("t%d Clear -> %d deleted=%v [%d,%d]", h.thread, h.count, h.evicted, h.call, h.ret)
}

var errCreate = errors.New("scripted create failure")

type obsT struct {
	hist    []hop
	problem string
	psig    string
}

func (o *obsT) fail(sig, f string, a ...any) {
	if o.problem == "" {
		o.psig, o.problem = sig, fmt.Sprintf(f, a...)
	}
}

func job(sc scen, cfg vsched.Config) sdrv.Job {
	obs := &obsT{}
	scenario := func() {
		*obs = obsT{}
		tick := int64(0)
		serial := 0
		inflight := map[int]int{}
		createdOK := map[int]int{} // value -> key
		deleted := map[int]int{}   // value -> times deleted
		inPrefix := false
		evictOf := map[int]*[]kv{} // thread id -> delete callbacks observed during its current call (callbacks run on the calling thread)
		c, err := lru.NewCache[int, int](sc.capa, func(k int) (int, error) {
			creators[vsched.ThreadID()]++
			inflight[k]++
			if inflight[k] > 1 {
				obs.fail("single-flight", "two creations for key %c are in progress at the same time", 'a'+k)
			}
			fail := false
			if !inPrefix { // the sequential prefix only builds the starting state: its creations succeed, nothing is explored there
				vsched.Point(vsched.KEnv, "create", nil)
				fail = vsched.Choose("create-fails", 2, true) == 1
			}
			inflight[k]--
			if fail {
				vsched.Note("create(%c) fails", 'a'+k)
				return 0, errCreate
			}
			serial++
			createdOK[serial] = k
			vsched.Note("create(%c) -> v%d", 'a'+k, serial)
			return serial, nil
		}, func(k, v int) {
			deleted[v]++
			if l := evictOf[vsched.ThreadID()]; l != nil {
				*l = append(*l, kv{k, v})
			}
			if deleted[v] > 1 {
				obs.fail("deleted-twice", "value v%d (key %c) was passed to the delete callback twice", v, 'a'+k)
			}
			if kk, ok := createdOK[v]; !ok || kk != k {
				obs.fail("delete-wrong", "delete callback got (%c, v%d) which the create function never produced for that key", 'a'+k, v)
			}
		})
		if err != nil {
			panic(err)
		}
		everResident := map[string]bool{}
		// invariant at every harness point (no thread is inside the cache mutex there): a value that was resident
		// and is not resident any more has been passed to the delete callback - leaving the cache and the callback
		// are one atomic step
		leftWithoutDelete := func(where string) {
			res := map[string]bool{}
			for _, v := range lru.VerifValues(c.ECache) {
				res[v] = true
				everResident[v] = true
			}
			for v := range createdOK {
				k := fmt.Sprint(v)
				if everResident[k] && !res[k] && deleted[v] == 0 {
					obs.fail("left-without-delete", "%s: value v%d was resident, is not resident any more, and has not been passed to the delete callback (yet): leaving the cache and the callback are not atomic", where, v)
				}
			}
		}
		done := make([]bool, len(sc.progs))
		runOps := func(t int, prog []cop) {
			for _, o := range prog {
				leftWithoutDelete(fmt.Sprintf("t%d before %v", t, o))
				tick++
				h := hop{thread: t, op: o, call: tick}
				// delete callbacks run under the cache mutex on the calling thread: attribute them to this call
				var ev []kv
				evictOf[vsched.ThreadID()] = &ev
				switch o.K {
				case 'G':
					createdHere := false
					v, err := getOrCreate(c, o.Key, &createdHere)
					h.val, h.failed, h.created = v, err != nil, createdHere
				case 'R':
					h.removed = c.Remove(o.Key)
				case 'C':
					h.count = c.Clear()
				}
				evictOf[vsched.ThreadID()] = nil
				h.evicted = ev
				tick++
				h.ret = tick
				obs.hist = append(obs.hist, h)
				vsched.Note("%v", h)
				nodes, _, _, length, problems, _, _ := lru.VerifItems(c.ECache)
				_ = nodes
				if length > sc.capa {
					obs.fail("capacity", "the cache holds %d values, capacity is %d", length, sc.capa)
				}
				if len(problems) > 0 {
					obs.fail("structure", "inner map: %v", problems)
				}
				leftWithoutDelete(fmt.Sprintf("t%d after %v", t, o))
			}
		}
		inPrefix = true
		runOps(8, sc.prefix)
		inPrefix = false
		for t, prog := range sc.progs {
			t, prog := t, prog
			vsched.GoNamed(fmt.Sprintf("t%d", t), func() {
				defer func() { done[t] = true }()
				runOps(t, prog)
			})
		}
		vsched.WaitFor("threads", func() bool {
			for _, d := range done {
				if !d {
					return false
				}
			}
			return true
		})
		// final Clear: every value that was created successfully must have been deleted exactly once by now
		tick++
		h := hop{thread: 9, op: cop{K: 'C'}, call: tick}
		var ev []kv
		evictOf[vsched.ThreadID()] = &ev
		h.count = c.Clear()
		evictOf[vsched.ThreadID()] = nil
		h.evicted = ev
		tick++
		h.ret = tick
		obs.hist = append(obs.hist, h)
		var leaked []string
		for v, k := range createdOK {
			if deleted[v] != 1 {
				leaked = append(leaked, fmt.Sprintf("v%d(%c) deleted %d times", v, 'a'+k, deleted[v]))
			}
		}
		sort.Strings(leaked)
		if len(leaked) > 0 {
			obs.fail("ledger", "after the final Clear: %s", strings.Join(leaked, ", "))
		}
		nodes, del, refd, length, _, dump, infl := lru.VerifItems(c.ECache)
		if infl != 0 {
			obs.fail("inflight-residue", "in-flight table has %d entries at the end", infl)
		}
		if nodes != 1 || del != 0 || refd != 0 || length != 0 {
			obs.fail("retention", "after the final Clear the inner list is %s (len %d)", dump, length)
		}
	}
	return sdrv.Job{
		Name: fmt.Sprintf("%s P=%d", sc, cfg.P), Cfg: cfg, Scenario: scenario,
		Check: func(x *vsched.Exec) (string, *vsched.Violation) {
			ctxt := "\nscenario: " + sc.String()
			if len(x.Panics) > 0 {
				return "panic", &vsched.Violation{Sig: "panic", Detail: x.Panics[0] + ctxt}
			}
			if x.Outcome != vsched.Completed {
				return x.Outcome.String(), &vsched.Violation{Sig: x.Outcome.String(), Detail: fmt.Sprintf("threads did not finish: %v", x.Blocked) + ctxt}
			}
			if obs.problem != "" {
				return "violation", &vsched.Violation{Sig: obs.psig, Detail: obs.problem + ctxt}
			}
			if !linearizable(sc.capa, obs.hist) {
				var ls []string
				kinds := map[string]bool{}
				for _, h := range obs.hist {
					ls = append(ls, "  "+h.String())
					if h.thread < 9 {
						kinds[string(h.op.K)] = true
					}
				}
				var ks []string
				for k := range kinds {
					ks = append(ks, k)
				}
				sort.Strings(ks)
				return "violation", &vsched.Violation{Sig: "not-linearizable " + strings.Join(ks, "+"), Detail: "no sequential LRU history explains the returned values and evictions:\n" + strings.Join(ls, "\n") + ctxt}
			}
			var oc []string
			for _, h := range obs.hist {
				if h.thread < 9 {
					oc = append(oc, fmt.Sprintf("%v/%v/%d", h.created, h.failed, len(h.evicted)))
				}
			}
			return strings.Join(oc, ","), nil
		},
	}
}

// getOrCreate calls the cache and reports whether the create callback ran on behalf of this call:
// the callback runs synchronously on the calling thread, so a thread-id stamp identifies it.
func getOrCreate(c *lru.Cache[int, int], k int, created *bool) (int, error) {
	me := vsched.ThreadID()
	creators[me] = 0
	v, err := c.GetOrCreate(k)
	*created = creators[me] > 0
	return v, err
}

var creators = map[int]int{}

// sequential reference LRU for porcupine
func linearizable(capa int, hist []hop) bool {
	model := porcupine.Model{
		Init: func() interface{} { return "" },
		Step: func(state, input, output interface{}) (bool, interface{}) {
			var list []kv
			if s := state.(string); s != "" {
				for _, f := range strings.Split(s, ",") {
					var e kv
					fmt.Sscanf(f, "%d:%d", &e.k, &e.v)
					list = append(list, e)
				}
			}
			h := hist[input.(int)]
			enc := func(l []kv) string {
				ss := make([]string, len(l))
				for i, e := range l {
					ss[i] = fmt.Sprintf("%d:%d", e.k, e.v)
				}
				return strings.Join(ss, ",")
			}
			find := func(k int) int {
				for i, e := range list {
					if e.k == k {
						return i
					}
				}
				return -1
			}
			switch h.op.K {
			case 'G':
				i := find(h.op.Key)
				if !h.created {
					if h.failed || i < 0 || list[i].v != h.val || len(h.evicted) != 0 {
						return false, state
					}
					e := list[i]
					list = append(append(list[:i:i], list[i+1:]...), e)
					return true, enc(list)
				}
				if i >= 0 {
					return false, state // a resident key must be returned without calling create
				}
				if h.failed {
					return len(h.evicted) == 0, state
				}
				list = append(list, kv{h.op.Key, h.val})
				var want []kv
				if len(list) > capa {
					want = []kv{list[0]}
					list = list[1:]
				}
				if fmt.Sprint(want) != fmt.Sprint(h.evicted) {
					return false, state
				}
				return true, enc(list)
			case 'R':
				i := find(h.op.Key)
				if (i >= 0) != h.removed {
					return false, state
				}
				if i < 0 {
					return len(h.evicted) == 0, state
				}
				if len(h.evicted) != 1 || h.evicted[0] != list[i] {
					return false, state
				}
				list = append(list[:i:i], list[i+1:]...)
				return true, enc(list)
			default:
				if h.count != len(list) || fmt.Sprint(h.evicted) != fmt.Sprint(list) && !(len(list) == 0 && len(h.evicted) == 0) {
					return false, state
				}
				return true, ""
			}
		},
	}
	ops := make([]porcupine.Operation, len(hist))
	for i, h := range hist {
		ops[i] = porcupine.Operation{ClientId: h.thread, Input: i, Output: i, Call: h.call, Return: h.ret}
	}
	return porcupine.CheckOperations(model, ops)
}

func progsOf(alpha []cop, k int) [][]cop {
	if k == 0 {
		return [][]cop{nil}
	}
	var r [][]cop
	for _, rest := range progsOf(alpha, k-1) {
		for _, o := range alpha {
			r = append(r, append(append([]cop{}, rest...), o))
		}
	}
	return r
}

func main() {
	run := ev.Parse("C09", "model_checking")
	fine := vsched.Mask(vsched.KLock, vsched.KUnlock, vsched.KChan, vsched.KEnv, vsched.KStep) // KUnlock: the cache may call back into the harness right after releasing its mutex
	alpha := []cop{{'G', 0}, {'G', 1}, {'R', 0}, {'C', 0}}
	var jobs []sdrv.Job
	add := func(threads int, progs [][]cop, caps []int, p int) {
		var rec func(cur [][]cop)
		rec = func(cur [][]cop) {
			if len(cur) == threads {
				for _, c := range caps {
					jobs = append(jobs, job(scen{c, append([][]cop{}, cur...), nil}, vsched.Config{P: p, Preempt: fine, MaxSteps: 5000}))
				}
				return
			}
			for _, p := range progs {
				rec(append(cur, p))
			}
		}
		rec(nil)
	}
	one := progsOf(alpha, 1)
	upTo2 := append(append([][]cop{}, one...), progsOf(alpha, 2)...)
	if !run.Thorough() {
		add(2, upTo2, []int{1, 2}, 2)
		add(3, one, []int{1, 2}, 2)
		add(2, one, []int{1, 2, 3}, 4)
		add(2, progsOf(alpha[:3], 2), []int{1}, 3)
		small := append(append([][]cop{}, progsOf(alpha[:3], 1)...), progsOf(alpha[:3], 2)...)
		add(3, small, []int{1}, 1)
		// from a non-initial state: capacity 3, a hit during fill-up (recency must already count), then concurrent misses
		pre := []cop{{'G', 0}, {'G', 1}, {'G', 0}}
		for _, ps := range [][][]cop{{{{'G', 2}}, {{'G', 3}}}, {{{'G', 2}, {'G', 3}}, {{'R', 0}}}, {{{'G', 2}, {'G', 3}}, {{'G', 1}}}, {{{'G', 2}}, {{'G', 3}}, {{'G', 0}}}} {
			jobs = append(jobs, job(scen{3, ps, pre}, vsched.Config{P: 2, Preempt: fine, MaxSteps: 5000}))
		}
	} else {
		alpha3 := append(append([]cop{}, alpha...), cop{'G', 2}, cop{'R', 1})
		add(2, append(progsOf(alpha3, 1), progsOf(alpha3, 2)...), []int{1, 2, 3}, 3)
		add(3, progsOf(alpha3, 1), []int{1, 2, 3}, 3)
		add(3, upTo2, []int{1, 2}, 2)
	}
	// a large cache (70 resident values; anything that works in batches has to get past its batch size): Clear against a
	// hit on the oldest / newest value, a Remove and a miss
	var fill []cop
	for k := 0; k < 70; k++ {
		fill = append(fill, cop{'G', k})
	}
	for _, other := range []cop{{'G', 0}, {'G', 69}, {'R', 3}, {'G', 100}} {
		jobs = append(jobs, job(scen{70, [][]cop{{{'C', 0}}, {other}}, fill}, vsched.Config{P: 2, Preempt: fine, MaxSteps: 50000}))
	}
	budget := 4 * time.Minute
	if run.Thorough() {
		budget = 12 * time.Minute
	}
	sdrv.Main(run, jobs, sdrv.Options{
		Budget: budget,
		Bounds: map[string]any{"threads": "2 (1-2 ops each) and 3 (1 op each)", "capacities": "1..3", "P": "quick: 2 (2 threads x <=2 ops, 3 threads x 1 op), 4 (2 threads x 1 op), 3 (2 threads x 2 ops over {G(a),G(b),R(a)}, capacity 1), 1 (3 threads x <=2 ops over {G(a),G(b),R(a)}, capacity 1); thorough: 3"},
		Rule:   "every program assignment over {GetOrCreate(a), GetOrCreate(b), Remove(a), Clear} (thorough: + GetOrCreate(c), Remove(b)); the create callback is harness code with a scheduling point and a free environment choice {succeeds, fails}; every schedule within the preemption bound with points at the cache mutex, the in-flight channel wait and inside the create callback (thorough: every statement outside the mutex). Oracles: at most one creation per key in progress; the call/return history with returned value, error, created flag and the delete callbacks observed per call is linearizable against a sequential LRU of the same capacity (porcupine); after a final Clear every successfully created value was deleted exactly once; resident values never exceed the capacity; in-flight table and inner list empty at the end",
	})
}
