// C15 - binary codec: decode(encode(x)) = x and predicted size = written size.
package main

import (
	"bytes"
	"encoding/binary"
	"fmt"
	"math"
	"math/bits"
	"runtime"
	"sync"
	"sync/atomic"

	"github.com/acquirecloud/golibs/xbinary"
	"verifh/internal/ev"
)

var (
	run     *ev.Run
	evals   atomic.Int64
	nontriv atomic.Int64
	samples ev.Samples
	failed  = map[string]bool{}
	failMu  sync.Mutex
)

// par runs f(i) for i in [0,n) on all cores.
func par(n int, f func(i int)) {
	var wg sync.WaitGroup
	w := runtime.NumCPU()
	var next atomic.Int64
	for k := 0; k < w; k++ {
		wg.Add(1)
		go func() {
			defer wg.Done()
			for {
				i := int(next.Add(1)) - 1
				if i >= n {
					return
				}
				f(i)
			}
		}()
	}
	wg.Wait()
}

func fail(sig, format string, a ...any) {
	failMu.Lock()
	defer failMu.Unlock()
	if failed[sig] {
		return
	}
	failed[sig] = true
	d := fmt.Sprintf(format, a...)
	run.Violation(sig, d, map[string]any{"case": d})
}

// independent LEB128 reference
func refVarint(v uint64) []byte {
	var b []byte
	for {
		c := byte(v & 0x7f)
		v >>= 7
		if v != 0 {
			b = append(b, c|0x80)
		} else {
			return append(b, c)
		}
	}
}

func checkVarint(v uint64) {
	defer func() {
		if r := recover(); r != nil {
			fail("varint panic", "%s: the codec panicked: %v", fmt.Sprintf("value %#x", v), r)
		}
	}()
	evals.Add(1)
	ref := refVarint(v)
	if len(ref) > 1 {
		nontriv.Add(1)
	}
	sz := xbinary.WritableUintSize(v)
	if sz != len(ref) {
		fail("varint size-table", "WritableUintSize(%#x)=%d, reference encoding has %d bytes", v, sz, len(ref))
		return
	}
	for dl := 0; dl <= sz+1; dl++ {
		dst := make([]byte, dl+2)
		dst[dl], dst[dl+1] = 0xA5, 0x5A
		n, err := xbinary.MarshalUint(uint(v), dst[:dl])
		if dl < sz {
			if err == nil {
				fail("varint short-buffer", "MarshalUint(%#x) into %d bytes (needs %d) returned n=%d err=nil", v, dl, sz, n)
				return
			}
			if n != 0 {
				fail("varint short-buffer-n", "MarshalUint(%#x) into %d bytes returned n=%d with error", v, dl, n)
				return
			}
			continue
		}
		if err != nil || n != sz || !bytes.Equal(dst[:n], ref) {
			fail("varint encode", "MarshalUint(%#x) into %d bytes: n=%d err=%v bytes=%x want %x", v, dl, n, err, dst[:n], ref)
			return
		}
		if dst[dl] != 0xA5 || dst[dl+1] != 0x5A {
			fail("varint overrun", "MarshalUint(%#x) wrote past the destination", v)
			return
		}
	}
	// decode, with trailing garbage that must not be consumed
	in := append(append([]byte{}, ref...), 0xFF, 0x01)
	n, got, err := xbinary.UnmarshalUint(in)
	if err != nil || n != len(ref) || uint64(got) != v {
		fail("varint decode", "UnmarshalUint(%x)=(%d,%#x,%v) want (%d,%#x)", in, n, got, err, len(ref), v)
		return
	}
	// truncated input fails
	for cut := 0; cut < len(ref); cut++ {
		if n, _, err := xbinary.UnmarshalUint(ref[:cut]); err == nil || n != 0 {
			fail("varint truncated", "UnmarshalUint(%x) truncated to %d bytes: n=%d err=%v", ref, cut, n, err)
			return
		}
	}
	var w bytes.Buffer
	ow := &xbinary.ObjectsWriter{Writer: &w}
	wn, werr := ow.WriteUint(uint(v))
	if werr != nil || wn != sz || !bytes.Equal(w.Bytes(), ref) {
		fail("varint writer", "ObjectsWriter.WriteUint(%#x) wrote %x (n=%d err=%v), Marshal wrote %x", v, w.Bytes(), wn, werr, ref)
	}
}

func checkFixed(width int, v uint64) {
	defer func() {
		if r := recover(); r != nil {
			fail("fixed panic", "%s: the codec panicked: %v", fmt.Sprintf("width %d value %#x", width, v), r)
		}
	}()
	evals.Add(1)
	if v != 0 {
		nontriv.Add(1)
	}
	want := make([]byte, 8)
	binary.BigEndian.PutUint64(want, v)
	want = want[8-width:]
	for dl := 0; dl <= width+1; dl++ {
		// the destination is a window of a larger array (cap > len): what lies behind it belongs to somebody else
		arena := bytes.Repeat([]byte{0xA5}, dl+width+4)
		dst := arena[:dl]
		defer func(dl int) {
			for _, b := range arena[dl:] {
				if b != 0xA5 {
					fail(fmt.Sprintf("fixed%d overrun", width), "Marshal width %d value %#x into a %d-byte window of a larger array wrote behind the window", width, v, dl)
					return
				}
			}
		}(dl)
		var n int
		var err error
		switch width {
		case 1:
			n, err = xbinary.MarshalByte(byte(v), dst)
		case 2:
			n, err = xbinary.MarshalUint16(uint16(v), dst)
		case 4:
			n, err = xbinary.MarshalUint32(uint32(v), dst)
		case 8:
			n, err = xbinary.MarshalUint64(v, dst)
		}
		if dl < width {
			if err == nil || n != 0 {
				fail(fmt.Sprintf("fixed%d short-buffer", width), "Marshal width %d value %#x into %d bytes: n=%d err=%v", width, v, dl, n, err)
				return
			}
			continue
		}
		if err != nil || n != width || !bytes.Equal(dst[:n], want) {
			fail(fmt.Sprintf("fixed%d encode", width), "Marshal width %d value %#x: n=%d err=%v bytes=%x want %x", width, v, n, err, dst[:n], want)
			return
		}
	}
	in := append(append([]byte{}, want...), 0xEE)
	var n int
	var got uint64
	var err error
	var w bytes.Buffer
	ow := &xbinary.ObjectsWriter{Writer: &w}
	var wn int
	switch width {
	case 1:
		var g byte
		n, g, err = xbinary.UnmarshalByte(in)
		got = uint64(g)
		wn, _ = ow.WriteByte(byte(v))
	case 2:
		var g uint16
		n, g, err = xbinary.UnmarshalUint16(in)
		got = uint64(g)
		wn, _ = ow.WriteUint16(uint16(v))
	case 4:
		var g uint32
		n, g, err = xbinary.UnmarshalUint32(in)
		got = uint64(g)
		wn, _ = ow.WriteUint32(uint32(v))
	case 8:
		n, got, err = xbinary.UnmarshalUint64(in)
		wn, _ = ow.WriteUint64(v)
	}
	if err != nil || n != width || got != v {
		fail(fmt.Sprintf("fixed%d decode", width), "Unmarshal width %d of %x: n=%d v=%#x err=%v", width, in, n, got, err)
	}
	if wn != width || !bytes.Equal(w.Bytes(), want) {
		fail(fmt.Sprintf("fixed%d writer", width), "ObjectsWriter width %d value %#x wrote %x (n=%d) want %x", width, v, w.Bytes(), wn, want)
	}
	for cut := 0; cut < width; cut++ {
		var e error
		var k int
		switch width {
		case 1:
			k, _, e = xbinary.UnmarshalByte(want[:cut])
		case 2:
			k, _, e = xbinary.UnmarshalUint16(want[:cut])
		case 4:
			k, _, e = xbinary.UnmarshalUint32(want[:cut])
		case 8:
			k, _, e = xbinary.UnmarshalUint64(want[:cut])
		}
		if e == nil || k != 0 {
			fail(fmt.Sprintf("fixed%d truncated", width), "Unmarshal width %d of %d bytes: n=%d err=%v", width, cut, k, e)
		}
	}
}

func pattern(n int) []byte {
	b := make([]byte, n)
	for i := range b {
		b[i] = byte((i*7 + n) % 251)
	}
	return b
}

func checkBytes(ln int, allDst bool) {
	defer func() {
		if r := recover(); r != nil {
			fail("bytes panic", "%s: the codec panicked: %v", fmt.Sprintf("length %d", ln), r)
		}
	}()
	evals.Add(1)
	if ln > 0 {
		nontriv.Add(1)
	}
	v := pattern(ln)
	prefix := refVarint(uint64(ln))
	want := append(append([]byte{}, prefix...), v...)
	sz := xbinary.WritebleBytesSize(v)
	if sz != len(want) || xbinary.WritableStringSize(string(v)) != len(want) {
		fail("bytes size", "WritebleBytesSize(len %d)=%d / WritableStringSize=%d, encoding has %d bytes", ln, sz, xbinary.WritableStringSize(string(v)), len(want))
		return
	}
	var dls []int
	if allDst {
		for dl := 0; dl <= sz+1; dl++ {
			dls = append(dls, dl)
		}
	} else {
		dls = []int{0, 1, len(prefix) - 1, len(prefix), len(prefix) + 1, sz - 1, sz, sz + 1}
	}
	for _, dl := range dls {
		for _, str := range []bool{false, true} {
			// the destination is a window of a larger array (cap > len): what lies behind it belongs to somebody else
			arena := bytes.Repeat([]byte{0xA5}, dl+sz+4)
			dst := arena[:dl]
			var n int
			var err error
			if str {
				n, err = xbinary.MarshalString(string(v), dst)
			} else {
				n, err = xbinary.MarshalBytes(v, dst)
			}
			for _, b := range arena[dl:] {
				if b != 0xA5 {
					fail("bytes overrun", "Marshal(len %d, string=%v) into a %d-byte window of a larger array (needs %d) wrote behind the window (n=%d err=%v)", ln, str, dl, sz, n, err)
					return
				}
			}
			if dl < sz {
				if err == nil || n != 0 {
					fail("bytes short-buffer", "Marshal(len %d, string=%v) into %d bytes (needs %d): n=%d err=%v", ln, str, dl, sz, n, err)
					return
				}
				continue
			}
			if err != nil || n != sz || !bytes.Equal(dst[:n], want) {
				fail("bytes encode", "Marshal(len %d, string=%v) into %d bytes: n=%d err=%v", ln, str, dl, n, err)
				return
			}
		}
	}
	var w bytes.Buffer
	ow := &xbinary.ObjectsWriter{Writer: &w}
	wn, werr := ow.WriteBytes(v)
	if werr != nil || wn != sz || !bytes.Equal(w.Bytes(), want) {
		fail("bytes writer", "ObjectsWriter.WriteBytes(len %d) n=%d err=%v differs from MarshalBytes", ln, wn, werr)
	}
	w.Reset()
	wn, werr = ow.WriteString(string(v))
	if werr != nil || wn != sz || !bytes.Equal(w.Bytes(), want) {
		fail("string writer", "ObjectsWriter.WriteString(len %d) n=%d err=%v differs from MarshalString", ln, wn, werr)
	}
	for _, nb := range []bool{false, true} {
		in := append(append([]byte{}, want...), 0x80, 0x80)
		n, got, err := xbinary.UnmarshalBytes(in, nb)
		if err != nil || n != sz || !bytes.Equal(got, v) {
			fail("bytes decode", "UnmarshalBytes(len %d, newBuf=%v): n=%d err=%v equal=%v", ln, nb, n, err, bytes.Equal(got, v))
			return
		}
		ns, gs, err := xbinary.UnmarshalString(in, true)
		if err != nil || ns != sz || gs != string(v) {
			fail("string decode", "UnmarshalString(len %d): n=%d err=%v", ln, ns, err)
			return
		}
		if nb {
			for i := range in {
				in[i] ^= 0xFF
			}
			if !bytes.Equal(got, v) || gs != string(v) {
				fail("bytes newbuf-independence", "UnmarshalBytes(len %d, newBuf=true) result changed when the source buffer was overwritten", ln)
				return
			}
		}
	}
	// truncated
	for _, cut := range []int{0, len(prefix) - 1, len(prefix), sz - 1} {
		if cut < 0 || cut >= sz {
			continue
		}
		if cut == len(prefix) && ln == 0 {
			continue
		}
		n, _, err := xbinary.UnmarshalBytes(want[:cut], false)
		if err == nil || n != 0 {
			fail("bytes truncated", "UnmarshalBytes of %d/%d bytes (body len %d): n=%d err=%v", cut, sz, ln, n, err)
			return
		}
	}
}

// items for the concatenation test
type item struct {
	kind byte // b w d q u s t
	u    uint64
	s    []byte
}

func (it item) String() string {
	if it.kind == 's' || it.kind == 't' {
		return fmt.Sprintf("%c[len %d]", it.kind, len(it.s))
	}
	return fmt.Sprintf("%c:%#x", it.kind, it.u)
}

func checkConcat(items []item) {
	defer func() {
		if r := recover(); r != nil {
			fail("concat panic", "%s: the codec panicked: %v", fmt.Sprint(items), r)
		}
	}()
	evals.Add(1)
	nontriv.Add(1)
	size := 0
	for _, it := range items {
		switch it.kind {
		case 'b':
			size++
		case 'w':
			size += 2
		case 'd':
			size += 4
		case 'q':
			size += 8
		case 'u':
			size += xbinary.WritableUintSize(it.u)
		case 's':
			size += xbinary.WritebleBytesSize(it.s)
		case 't':
			size += xbinary.WritableStringSize(string(it.s))
		}
	}
	buf := make([]byte, size)
	var w bytes.Buffer
	ow := &xbinary.ObjectsWriter{Writer: &w}
	off := 0
	for _, it := range items {
		var n, wn int
		var err error
		switch it.kind {
		case 'b':
			n, err = xbinary.MarshalByte(byte(it.u), buf[off:])
			wn, _ = ow.WriteByte(byte(it.u))
		case 'w':
			n, err = xbinary.MarshalUint16(uint16(it.u), buf[off:])
			wn, _ = ow.WriteUint16(uint16(it.u))
		case 'd':
			n, err = xbinary.MarshalUint32(uint32(it.u), buf[off:])
			wn, _ = ow.WriteUint32(uint32(it.u))
		case 'q':
			n, err = xbinary.MarshalUint64(it.u, buf[off:])
			wn, _ = ow.WriteUint64(it.u)
		case 'u':
			n, err = xbinary.MarshalUint(uint(it.u), buf[off:])
			wn, _ = ow.WriteUint(uint(it.u))
		case 's':
			n, err = xbinary.MarshalBytes(it.s, buf[off:])
			wn, _ = ow.WriteBytes(it.s)
		case 't':
			n, err = xbinary.MarshalString(string(it.s), buf[off:])
			wn, _ = ow.WriteString(string(it.s))
		}
		if err != nil || n != wn {
			fail("concat encode", "items %v: item %v n=%d writer n=%d err=%v", items, it, n, wn, err)
			return
		}
		off += n
	}
	if off != size || !bytes.Equal(buf, w.Bytes()) {
		fail("concat size", "items %v: wrote %d bytes, predicted %d; writer equal=%v", items, off, size, bytes.Equal(buf, w.Bytes()))
		return
	}
	off = 0
	for _, it := range items {
		var n int
		var err error
		ok := true
		switch it.kind {
		case 'b':
			var g byte
			n, g, err = xbinary.UnmarshalByte(buf[off:])
			ok = uint64(g) == it.u&0xff
		case 'w':
			var g uint16
			n, g, err = xbinary.UnmarshalUint16(buf[off:])
			ok = uint64(g) == it.u&0xffff
		case 'd':
			var g uint32
			n, g, err = xbinary.UnmarshalUint32(buf[off:])
			ok = uint64(g) == it.u&0xffffffff
		case 'q':
			var g uint64
			n, g, err = xbinary.UnmarshalUint64(buf[off:])
			ok = g == it.u
		case 'u':
			var g uint
			n, g, err = xbinary.UnmarshalUint(buf[off:])
			ok = uint64(g) == it.u
		case 's':
			var g []byte
			n, g, err = xbinary.UnmarshalBytes(buf[off:], false)
			ok = bytes.Equal(g, it.s)
		case 't':
			var g string
			n, g, err = xbinary.UnmarshalString(buf[off:], true)
			ok = g == string(it.s)
		}
		if err != nil || !ok {
			fail("concat decode", "items %v: item %v decoded wrongly at offset %d (err=%v)", items, it, off, err)
			return
		}
		off += n
	}
	if off != size {
		fail("concat consumed", "items %v: decoding consumed %d of %d bytes", items, off, size)
	}
}

func main() {
	run = ev.Parse("C15", "exploration")
	// fixed width
	for v := 0; v < 256; v++ {
		checkFixed(1, uint64(v))
	}
	for v := 0; v < 65536; v++ {
		checkFixed(2, uint64(v))
	}
	pats := []byte{0x00, 0xFF, 0x55}
	for _, width := range []int{4, 8} {
		for i := 0; i < width; i++ {
			for j := i + 1; j < width; j++ {
				for _, p := range pats {
					step := 1
					if !run.Thorough() {
						step = 3 // quick: every third value of the 16-bit window plus the window's ends
					}
					par(64, func(c int) {
						for x := c * 1024; x < (c+1)*1024; x++ {
							if x%step != 0 && x != 65535 {
								continue
							}
							var b [8]byte
							for k := range b {
								b[k] = p
							}
							b[8-width+i] = byte(x >> 8)
							b[8-width+j] = byte(x)
							v := binary.BigEndian.Uint64(b[:])
							if width == 4 {
								v &= 0xffffffff
							}
							checkFixed(width, v)
						}
					})
				}
			}
		}
	}
	samples.Add("fixed: all bytes, all uint16, uint32/uint64 with two arbitrary bytes among 00/FF/55 patterns")
	// varints
	lim := uint64(1 << 21)
	par(int(lim/4096)+1, func(c int) {
		for v := uint64(c) * 4096; v < uint64(c+1)*4096 && v < lim+2; v++ {
			checkVarint(v)
		}
	})
	gp := []uint64{0x00, 0x7F, 0x55}
	for i := 0; i < 10; i++ {
		for j := i + 1; j < 10; j++ {
			for _, p := range gp {
				var base uint64
				for k := 0; k < 10; k++ {
					if k != i && k != j {
						base |= (p & 0x7f) << (7 * k) // shifts >= 64 vanish
					}
				}
				par(128, func(ai int) {
					a := uint64(ai)
					for b := uint64(0); b < 128; b++ {
						v := base | a<<(7*i) | b<<(7*j)
						checkVarint(v)
					}
				})
			}
		}
	}
	for k := 0; k < 64; k++ {
		checkVarint(1<<k - 1)
		checkVarint(1 << k)
		checkVarint(1<<k + 1)
	}
	checkVarint(math.MaxUint64)
	checkVarint(math.MaxUint64 - 1)
	for k := 1; k <= 9; k++ { // 7-bit group boundaries and neighbours
		for d := -2; d <= 2; d++ {
			checkVarint(uint64(int64(1)<<(7*k)) + uint64(d))
		}
	}
	samples.Add(fmt.Sprintf("varint: every value < 2^21, all values with two arbitrary 7-bit groups among 00/7F/55 patterns, 2^k-1/2^k/2^k+1, group boundaries; e.g. %#x -> %x (bit length %d)", uint64(1)<<35, refVarint(1<<35), bits.Len64(1<<35)))
	// byte strings / strings
	par(301, func(ln int) { checkBytes(ln, true) })
	for _, ln := range []int{16382, 16383, 16384, 16385, 2097151, 2097152, 2097153} {
		checkBytes(ln, false)
	}
	samples.Add("bytes/strings: every length 0..300 with every destination length 0..size+1; lengths around 2^14 and 2^21 with boundary destination lengths")
	// concatenations
	pool := []item{
		{'b', 0, nil}, {'b', 0xff, nil}, {'w', 0x8001, nil}, {'d', 0xdeadbeef, nil}, {'q', 0x8000000000000001, nil},
		{'u', 0, nil}, {'u', 127, nil}, {'u', 128, nil}, {'u', math.MaxUint64, nil},
		{'s', 0, []byte{}}, {'s', 0, pattern(129)}, {'t', 0, []byte("h\x00llo \xffw")},
	}
	for _, a := range pool {
		checkConcat([]item{a})
		for _, b := range pool {
			checkConcat([]item{a, b})
			for _, c := range pool {
				checkConcat([]item{a, b, c})
			}
		}
	}
	samples.Add(fmt.Sprintf("concatenations: all sequences of <= 3 items from a %d-item pool, e.g. %v", len(pool), []item{pool[3], pool[8], pool[10]}))
	run.Finish(ev.Coverage{
		"evaluations": evals.Load(), "distinct_nontrivial": nontriv.Load(), "samples": samples.List, "exhaustive": true,
		"rule": "nested enumeration of the value / length / destination-size lattice described in the samples; every enumerated input is distinct; non-trivial = non-zero fixed-width value, varint of >= 2 bytes, non-empty byte string, or a concatenation; each input is encoded by Marshal* and ObjectsWriter (bytes compared with an independent LEB128/big-endian reference), size predictions compared with bytes written, every destination length 0..size+1 tried, decoded back with trailing garbage and with every truncation",
	})
}
