// selftest exercises the controlled scheduler itself (./check selftest): known-racy and known-correct toy
// programs must give exactly the expected verdicts and execution counts, schedules must replay identically.
package main

import (
	"fmt"
	"os"
	"sort"
	"strings"
	"time"

	"github.com/acquirecloud/golibs/zverif/vsched"
	"github.com/acquirecloud/golibs/zverif/vsync"
	"github.com/acquirecloud/golibs/zverif/vtime"
)

var failed = 0

func expect(name string, ok bool, format string, a ...any) {
	if ok {
		fmt.Printf("ok   %s\n", name)
		return
	}
	failed++
	fmt.Printf("FAIL %s: %s\n", name, fmt.Sprintf(format, a...))
}

// explore runs scenario under cfg and returns the multiset of final observations.
func explore(cfg vsched.Config, scenario func(), observe func() string) (map[string]int, *vsched.Stats, string) {
	outs := map[string]int{}
	e := &vsched.Explorer{Cfg: cfg, Scenario: scenario, Check: func(x *vsched.Exec) (string, *vsched.Violation) {
		o := x.Outcome.String()
		if x.Outcome == vsched.Completed {
			o = observe()
		}
		if len(x.Panics) > 0 {
			o = "panic"
		}
		outs[o]++
		return o, nil
	}}
	e.Run()
	return outs, e.Stats, e.InfraErr
}

func keys(m map[string]int) string {
	var ks []string
	for k := range m {
		ks = append(ks, k)
	}
	sort.Strings(ks)
	return strings.Join(ks, ",")
}

func join(done []bool) {
	vsched.WaitFor("all", func() bool {
		for _, d := range done {
			if !d {
				return false
			}
		}
		return true
	})
}

func main() {
	all := vsched.AllKinds
	// 1. lost update: read, yield, write without a lock -> final 1 and 2 both reachable with P>=1, only 2 with P=0
	var x int
	racy := func() {
		x = 0
		done := make([]bool, 2)
		for i := 0; i < 2; i++ {
			i := i
			vsched.GoNamed(fmt.Sprint("t", i), func() {
				v := x
				vsched.Step()
				x = v + 1
				done[i] = true
			})
		}
		join(done)
	}
	o0, _, _ := explore(vsched.Config{P: 0, Preempt: all}, racy, func() string { return fmt.Sprint(x) })
	o1, st1, infra := explore(vsched.Config{P: 1, Preempt: all}, racy, func() string { return fmt.Sprint(x) })
	expect("lost-update P=0 sees only the serial outcome", keys(o0) == "2", "outcomes %v", o0)
	expect("lost-update P=1 finds the lost update", keys(o1) == "1,2" && infra == "", "outcomes %v infra=%q", o1, infra)
	expect("determinism audit ran", st1.DetChecked > 0, "")
	// 2. the same with a shim mutex: never lost, at any bound
	var mu vsync.Mutex
	locked := func() {
		x = 0
		mu = vsync.Mutex{}
		done := make([]bool, 3)
		for i := 0; i < 3; i++ {
			i := i
			vsched.GoNamed(fmt.Sprint("t", i), func() {
				mu.Lock()
				v := x
				vsched.Step()
				x = v + 1
				mu.Unlock()
				done[i] = true
			})
		}
		join(done)
	}
	o2, st2, _ := explore(vsched.Config{P: 3, Preempt: all}, locked, func() string { return fmt.Sprint(x) })
	expect("mutex protects the update for every schedule", keys(o2) == "3", "outcomes %v", o2)
	expect("mutex scenario explores more than one schedule", st2.Executions > 6, "%d executions", st2.Executions)
	// 3. deadlock detection: two locks taken in opposite order
	var a, b vsync.Mutex
	dl := func() {
		a, b = vsync.Mutex{}, vsync.Mutex{}
		done := make([]bool, 2)
		vsched.GoNamed("ab", func() { a.Lock(); b.Lock(); b.Unlock(); a.Unlock(); done[0] = true })
		vsched.GoNamed("ba", func() { b.Lock(); a.Lock(); a.Unlock(); b.Unlock(); done[1] = true })
		join(done)
	}
	o3, _, _ := explore(vsched.Config{P: 1, Preempt: all}, dl, func() string { return "done" })
	expect("lock-order inversion: both completion and deadlock are found", keys(o3) == "deadlock,done", "outcomes %v", o3)
	// 4. buffered channel + select with default (token passing)
	tok := func() {
		ch := make(chan bool, 1)
		got := 0
		done := make([]bool, 2)
		vsched.GoNamed("send", func() { vsched.Send(ch, true); done[0] = true })
		vsched.GoNamed("try", func() {
			c := vsched.CaseRecv(ch)
			if vsched.Select(true, c) == 0 {
				got = 1
			}
			done[1] = true
		})
		join(done)
		x = got
	}
	o4, _, _ := explore(vsched.Config{P: 1, Preempt: all}, tok, func() string { return fmt.Sprint(x) })
	expect("non-blocking receive sees the token in some schedules only", keys(o4) == "0,1", "outcomes %v", o4)
	// 5. unbuffered channel: non-blocking send succeeds only if the receiver is already parked
	unb := func() {
		ch := make(chan int)
		sent, recvd := false, -1
		done := make([]bool, 2)
		vsched.GoNamed("recv", func() { recvd = vsched.Recv(ch); done[0] = true })
		vsched.GoNamed("send", func() {
			if vsched.Select(true, vsched.CaseSend(ch, 7)) == 0 {
				sent = true
			} else {
				vsched.Send(ch, 9) // blocking send: rendezvous
				sent = false
			}
			done[1] = true
		})
		join(done)
		x = recvd
		_ = sent
	}
	o5, _, _ := explore(vsched.Config{P: 2, Preempt: all}, unb, func() string { return fmt.Sprint(x) })
	expect("unbuffered rendezvous: value 7 (receiver parked first) and 9 (sender first) both occur, nothing else", keys(o5) == "7,9", "outcomes %v", o5)
	// 6. virtual time: timers fire in deadline order, clock only moves when everything is blocked
	tm := func() {
		var order []string
		done := make([]bool, 2)
		vsched.GoNamed("late", func() { vtime.Sleep(2 * time.Second); order = append(order, "late"); done[0] = true })
		vsched.GoNamed("early", func() {
			t := vtime.NewTimer(time.Second)
			vsched.Recv(t.C)
			order = append(order, "early")
			done[1] = true
		})
		join(done)
		x = int(vsched.NowPeek() / time.Second)
		if strings.Join(order, ",") != "early,late" {
			x = -1
		}
	}
	o6, _, _ := explore(vsched.Config{P: 2, Preempt: all}, tm, func() string { return fmt.Sprint(x) })
	expect("timers fire in deadline order at the right virtual instants", keys(o6) == "2", "outcomes %v", o6)
	// 7. replay: the same choice list gives the same notes
	r1 := vsched.Replay(vsched.Config{P: 1, Preempt: all}, []int{1}, func() { racy(); vsched.Note("x=%d", x) })
	r2 := vsched.Replay(vsched.Config{P: 1, Preempt: all}, []int{1}, func() { racy(); vsched.Note("x=%d", x) })
	expect("replay reproduces identical observations", strings.Join(r1.Notes, "|") == strings.Join(r2.Notes, "|") && len(r1.Notes) == 1, "%v vs %v", r1.Notes, r2.Notes)
	// 8. an out-of-range choice in a prefix is reported, not ignored
	r3 := vsched.Replay(vsched.Config{P: 1, Preempt: all}, []int{9}, racy)
	expect("out-of-range replay choice is a hard error", r3.ReplayEr != "", "no error reported")
	// 9. an environment event that passes scheduling points (statement steps, a channel send) while the thread in whose
	// context it runs is parked in a select: the parked thread is resumed only when its select is really ready
	ev := func() {
		wake := make(chan int, 1)
		got := -1
		done := make([]bool, 1)
		vsched.GoNamed("parked", func() {
			c := vsched.CaseRecv[int](wake)
			vsched.Select(false, c)
			got = c.Val.(int)
			done[0] = true
		})
		fired := false
		vsched.Pseudo("event", nil, func() { vsched.Step(); vsched.Step(); fired = true })
		vsched.GoNamed("waker", func() {
			vsched.WaitFor("event", func() bool { return fired })
			vsched.Send(wake, 5)
		})
		join(done)
		x = got
	}
	o9, _, _ := explore(vsched.Config{P: 2, Preempt: all}, ev, func() string { return fmt.Sprint(x) })
	expect("environment events are atomic and leave the parked thread's readiness alone", keys(o9) == "5", "outcomes %v", o9)
	if failed > 0 {
		fmt.Printf("selftest: %d FAILED\n", failed)
		os.Exit(2)
	}
	fmt.Println("selftest: all passed")
}
