// C14 - ring buffer is a bounded FIFO queue for every call sequence.
package main

import (
	"errors"
	"fmt"
	"io"
	"math"
	"strings"

	"github.com/acquirecloud/golibs/container"
	gerrors "github.com/acquirecloud/golibs/errors"
	"verifh/internal/bfs"
	"verifh/internal/deepdump"
	"verifh/internal/ev"
)

type op struct {
	K string // W R N S A C L P(cap)
	A int
}

func (o op) String() string { return fmt.Sprintf("%s(%d)", o.K, o.A) }

type sys struct {
	capa int
	rb   interface {
		Write(int) error
		Read() (int, error)
		ReadN([]int) int
		Skip(int) int
		At(int) int
		Clear()
		Len() int
		Cap() int
	}
	state func() (int, int, []int)
	model []int
	ser   int
	light bool // skip the O(cap) invariants (warm-up phase of the large-capacity sweep)
}

func newSys(capa int) *sys {
	rb := container.NewRingBuffer[int](uint(capa))
	return &sys{capa: capa, rb: rb, state: func() (int, int, []int) { return container.VerifRingState(rb) }}
}

func alphabet(capa int) []op {
	var a []op
	a = append(a, op{"W", 0}, op{"R", 0}, op{"C", 0}, op{"L", 0}, op{"P", 0})
	for n := 0; n <= capa+1; n++ {
		a = append(a, op{"N", n})
	}
	for n := -1; n <= capa+1; n++ {
		a = append(a, op{"S", n})
	}
	a = append(a, op{"S", math.MaxInt}, op{"S", math.MinInt})
	for i := -1; i <= capa; i++ {
		a = append(a, op{"A", i})
	}
	return a
}

// apply runs one op on impl and model; returns a violation description or "".
func (s *sys) apply(o op) (sig, detail string) {
	defer func() {
		if r := recover(); r != nil {
			sig, detail = "panic:"+o.K, fmt.Sprintf("%v panicked: %v", o, r)
		}
	}()
	bad := func(clause, f string, a ...any) (string, string) {
		return o.K + ":" + clause, fmt.Sprintf(f, a...)
	}
	switch o.K {
	case "W":
		s.ser++
		v := s.ser
		err := s.rb.Write(v)
		if len(s.model) == s.capa {
			if err == nil || !gerrors.Is(err, gerrors.ErrExhausted) {
				return bad("full", "Write on full buffer returned %v, want ErrExhausted", err)
			}
		} else {
			if err != nil {
				return bad("notfull", "Write on non-full buffer (len %d cap %d) returned %v", len(s.model), s.capa, err)
			}
			s.model = append(s.model, v)
		}
	case "R":
		v, err := s.rb.Read()
		if len(s.model) == 0 {
			if !errors.Is(err, io.EOF) {
				return bad("empty", "Read on empty buffer returned (%d,%v), want io.EOF", v, err)
			}
			if v != 0 {
				return bad("empty-val", "Read on empty buffer returned value %d", v)
			}
		} else {
			if err != nil || v != s.model[0] {
				return bad("value", "Read returned (%d,%v), want (%d,nil)", v, err, s.model[0])
			}
			s.model = s.model[1:]
		}
	case "N":
		dst := make([]int, o.A)
		for i := range dst {
			dst[i] = -7
		}
		n := s.rb.ReadN(dst)
		want := o.A
		if want > len(s.model) {
			want = len(s.model)
		}
		if n != want {
			return bad("count", "ReadN(len %d) with Len=%d returned %d, want %d", o.A, len(s.model), n, want)
		}
		for i := 0; i < len(dst); i++ {
			if i < want && dst[i] != s.model[i] {
				return bad("data", "ReadN dst[%d]=%d want %d", i, dst[i], s.model[i])
			}
			if i >= want && dst[i] != -7 {
				return bad("overwrite", "ReadN wrote dst[%d]=%d beyond the %d elements read", i, dst[i], want)
			}
		}
		s.model = s.model[want:]
	case "S":
		n := s.rb.Skip(o.A)
		want := o.A
		if want < 0 {
			want = 0
		}
		if want > len(s.model) {
			want = len(s.model)
		}
		if n != want {
			return bad("count", "Skip(%d) with Len=%d returned %d, want %d", o.A, len(s.model), n, want)
		}
		s.model = s.model[want:]
	case "A":
		inRange := o.A >= 0 && o.A < len(s.model)
		var v int
		panicked := func() (p bool) {
			defer func() {
				if recover() != nil {
					p = true
				}
			}()
			v = s.rb.At(o.A)
			return false
		}()
		if inRange && panicked {
			return bad("panic-inrange", "At(%d) panicked with Len=%d", o.A, len(s.model))
		}
		if !inRange && !panicked {
			return bad("nopanic", "At(%d) did not panic with Len=%d (returned %d)", o.A, len(s.model), v)
		}
		if inRange && v != s.model[o.A] {
			return bad("value", "At(%d)=%d want %d", o.A, v, s.model[o.A])
		}
	case "C":
		s.rb.Clear()
		s.model = nil
	case "L":
		if n := s.rb.Len(); n != len(s.model) {
			return bad("len", "Len()=%d want %d", n, len(s.model))
		}
	case "P":
		if c := s.rb.Cap(); c != s.capa {
			return bad("cap", "Cap()=%d want %d", c, s.capa)
		}
	}
	// invariants after every op
	if s.light {
		return "", ""
	}
	if n := s.rb.Len(); n != len(s.model) {
		return "inv:len", fmt.Sprintf("after %v Len()=%d, model %d", o, n, len(s.model))
	}
	r, w, buf := s.state()
	live := map[int]bool{}
	for i, k := r, 0; k < len(s.model); i, k = (i+1)%len(buf), k+1 {
		live[i] = true
		if buf[i] != s.model[k] {
			return "inv:content", fmt.Sprintf("after %v slot %d holds %d, model element %d is %d", o, i, buf[i], k, s.model[k])
		}
	}
	for i := range buf {
		if !live[i] && buf[i] != 0 {
			return "inv:zeroing", fmt.Sprintf("after %v consumed slot %d still references %d (r=%d w=%d buf=%v)", o, i, buf[i], r, w, buf)
		}
	}
	return "", ""
}

func (s *sys) key() string {
	r, w, buf := s.state()
	// values are opaque serial numbers: canonicalise to their rank so that histories of any length fold
	var b strings.Builder
	fmt.Fprintf(&b, "%d/%d/", r, w)
	for _, v := range buf {
		if v == 0 {
			b.WriteByte('.')
		} else {
			b.WriteByte('x')
		}
	}
	fmt.Fprintf(&b, "/%d", len(s.model))
	// every other field the buffer object has (the element slice is rendered above, by occupancy)
	b.WriteString("|" + deepdump.Dump(s.rb, deepdump.Options{SkipFields: map[string]bool{"ringBuffer[int].buf": true}}))
	return b.String()
}

func main() {
	run := ev.Parse("C14", "model_checking")
	maxCap := 4
	if run.Thorough() {
		maxCap = 6
	}
	if run.Replay != "" {
		var rp struct {
			Capacity int
			Path     []op
		}
		if _, _, err := run.LoadReplay(&rp); err != nil {
			ev.Infra("replay: %v", err)
		}
		fmt.Println("replaying capacity", rp.Capacity, rp.Path)
		s := newSys(rp.Capacity)
		for _, o := range rp.Path {
			if sig, det := s.apply(o); sig != "" {
				run.ReplayVerdict("ring "+sig, det)
			}
		}
		run.ReplayVerdict("", "")
	}
	totalStates, totalTrans := 0, int64(0)
	fix := true
	var samples ev.Samples
	perCap := map[string]any{}
	for capa := 0; capa <= maxCap; capa++ {
		capa := capa
		al := alphabet(capa)
		sp := bfs.Spec[op]{
			Run: func(path []op) (string, []op, *bfs.Violation) {
				s := newSys(capa)
				for i, o := range path {
					sig, det := s.apply(o)
					if sig != "" {
						if i != len(path)-1 {
							return "", nil, &bfs.Violation{Sig: "nondeterministic-replay", Detail: det}
						}
						return "", nil, &bfs.Violation{Sig: sig, Detail: fmt.Sprintf("capacity %d: %s", capa, det)}
					}
				}
				return s.key(), al, nil
			},
		}
		st, found := bfs.Explore(sp)
		totalStates += st.States
		totalTrans += st.Transitions
		fix = fix && st.Fixpoint
		perCap[fmt.Sprint(capa)] = map[string]any{"states": st.States, "transitions": st.Transitions, "depth": st.Depth, "fixpoint": st.Fixpoint}
		for _, f := range found {
			run.Violation(fmt.Sprintf("ring %s", f.V.Sig), fmt.Sprintf("%s\npath: %v", f.V.Detail, f.Path), map[string]any{"capacity": capa, "ops": fmt.Sprint(f.Path), "path": f.Path})
		}
		samples.Add(fmt.Sprintf("capacity %d: fixpoint=%v states=%d depth=%d alphabet=%v", capa, st.Fixpoint, st.States, st.Depth, al))
	}
	// cross-check of the state abstraction: plain exhaustive enumeration WITHOUT deduplication to a small depth
	nodedup := int64(0)
	ndDepth := 4
	if run.Thorough() {
		ndDepth = 5
	}
	for capa := 0; capa <= 3; capa++ {
		al := alphabet(capa)
		var rec func(path []op)
		rec = func(path []op) {
			s := newSys(capa)
			for _, o := range path {
				if sig, det := s.apply(o); sig != "" {
					run.Violation("ring "+sig, fmt.Sprintf("capacity %d (no-dedup enumeration): %s\npath: %v", capa, det, path), map[string]any{"capacity": capa, "ops": fmt.Sprint(path)})
					return
				}
			}
			nodedup++
			if len(path) == ndDepth || run.NewViolations() > 0 {
				return
			}
			for _, o := range al {
				rec(append(path[:len(path):len(path)], o))
			}
		}
		rec(nil)
	}
	samples.Add(fmt.Sprintf("no-dedup enumeration: all sequences of length <= %d for capacities 0..3: %d sequences", ndDepth, nodedup))
	// deterministic sweep of a large capacity: every start offset x boundary arguments
	sweep := 0
	for _, capa := range []int{1000} {
		for off := 0; off <= capa; off += 1 {
			if !run.Thorough() && off%7 != 0 && off < capa-3 && off > 3 {
				continue
			}
			for _, fill := range []int{0, 1, capa / 2, capa - 1, capa} {
				for _, o := range []op{{"N", capa - 1}, {"N", capa}, {"N", capa + 1}, {"S", capa - 1}, {"S", capa}, {"S", capa + 1}, {"S", math.MaxInt}, {"N", 1}, {"S", 1}} {
					s := newSys(capa)
					s.light = true
					for i := 0; i < off; i++ {
						s.apply(op{"W", 0})
					}
					if sig, det := s.apply(op{"S", off}); sig != "" {
						run.Violation("ring-sweep "+sig, det, map[string]any{"capacity": capa, "offset": off})
					}
					for i := 0; i < fill; i++ {
						if sig, det := s.apply(op{"W", 0}); sig != "" {
							run.Violation("ring-sweep "+sig, det, map[string]any{"capacity": capa, "offset": off, "fill": fill})
							break
						}
					}
					s.light = false
					for _, oo := range []op{o, {"W", 0}, {"R", 0}, {"L", 0}} {
						if sig, det := s.apply(oo); sig != "" {
							run.Violation("ring-sweep "+sig, fmt.Sprintf("capacity %d offset %d fill %d op %v: %s", capa, off, fill, oo, det), map[string]any{"capacity": capa, "offset": off, "fill": fill, "op": oo.String()})
							break
						}
					}
					sweep++
				}
			}
		}
	}
	samples.Add(fmt.Sprintf("sweep: capacity 1000, %d (offset,fill,op) combinations", sweep))
	// very large buffers: one call consumes tens of thousands of contiguous slots (bulk helpers with block-wise copies)
	huge := 0
	for _, capa := range []int{40000, 70001} {
		for _, off := range []int{0, 1, capa / 3, capa - 1} {
			for _, fill := range []int{capa, capa - 1, 24577, 32769} {
				for _, o := range []op{{"N", capa}, {"S", capa}, {"C", 0}} {
					s := newSys(capa)
					s.light = true
					for i := 0; i < off; i++ {
						s.apply(op{"W", 0})
					}
					s.apply(op{"S", off})
					for i := 0; i < fill; i++ {
						s.apply(op{"W", 0})
					}
					s.light = false
					for _, oo := range []op{o, {"W", 0}, {"R", 0}, {"L", 0}} {
						if sig, det := s.apply(oo); sig != "" {
							run.Violation("ring-huge "+sig, fmt.Sprintf("capacity %d offset %d fill %d op %v: %s", capa, off, fill, oo, det), map[string]any{"capacity": capa, "offset": off, "fill": fill, "op": oo.String()})
							break
						}
					}
					huge++
				}
			}
		}
	}
	samples.Add(fmt.Sprintf("huge buffers: capacities 40000 and 70001, %d (offset,fill,op) combinations consuming up to the whole buffer in one call", huge))
	run.Assume = []string{"elements are opaque to the buffer (data independence): distinct serial numbers are written, the state key keeps only which slots are non-zero"}
	run.Finish(ev.Coverage{
		"states": totalStates, "transitions": totalTrans, "traces_validated_against_impl": totalTrans,
		"samples": samples.List, "exhaustive": fix, "fixpoint": fix, "per_capacity": perCap, "large_capacity_sweep_cases": sweep, "nodedup_sequences": nodedup, "nodedup_depth": ndDepth,
		"rule": "BFS over all call sequences of {Write, Read, ReadN(len 0..cap+1), Skip(-1..cap+1, MaxInt, MinInt), At(-1..cap), Clear, Len, Cap} for every capacity 0..max until no new (r, w, occupancy pattern) state appears; every transition is a replay on a fresh real buffer compared step by step with a slice model, plus zeroing/content invariants through the accessor",
	})
}
