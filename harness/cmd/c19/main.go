// C19 - error classes survive wrapping and the gRPC boundary.
package main

import (
	"strings"
	stderrors "errors"
	"fmt"
	"io/fs"
	"reflect"
	"syscall"

	gerrors "github.com/acquirecloud/golibs/errors"
	"google.golang.org/grpc/codes"
	"google.golang.org/grpc/status"
	"verifh/internal/ev"
)

type class struct {
	name string
	err  error
}

var classes = []class{
	{"ErrExist", gerrors.ErrExist}, {"ErrNotExist", gerrors.ErrNotExist}, {"ErrClosed", gerrors.ErrClosed},
	{"ErrInvalid", gerrors.ErrInvalid}, {"ErrNotAuthorized", gerrors.ErrNotAuthorized}, {"ErrDataLoss", gerrors.ErrDataLoss},
	{"ErrCommunication", gerrors.ErrCommunication}, {"ErrInternal", gerrors.ErrInternal}, {"ErrConflict", gerrors.ErrConflict},
	{"ErrExhausted", gerrors.ErrExhausted}, {"ErrUnimplemented", gerrors.ErrUnimplemented}, {"ErrCanceled", gerrors.ErrCanceled},
}

// classes that have a gRPC code of their own (the property quantifies over these)
var withCode = map[string]codes.Code{
	"ErrExist": codes.AlreadyExists, "ErrNotExist": codes.NotFound, "ErrInvalid": codes.InvalidArgument,
	"ErrNotAuthorized": codes.PermissionDenied, "ErrInternal": codes.Internal, "ErrDataLoss": codes.DataLoss,
	"ErrExhausted": codes.ResourceExhausted, "ErrUnimplemented": codes.Unimplemented, "ErrConflict": codes.FailedPrecondition,
	"ErrCanceled": codes.Canceled,
}

// real OS errors that belong to a class through their own Is method
var instances = map[string][]error{
	"ErrNotExist":      {&fs.PathError{Op: "open", Path: "/nowhere", Err: syscall.ENOENT}},
	"ErrExist":         {&fs.PathError{Op: "mkdir", Path: "/tmp", Err: syscall.EEXIST}, syscall.ENOTEMPTY},
	"ErrNotAuthorized": {&fs.PathError{Op: "open", Path: "/root/x", Err: syscall.EACCES}, syscall.EPERM},
}

type obj struct {
	A int    `json:"a"`
	B string `json:"b"`
}

var texts = []string{"", "plain", "with: colon: inside", `{"json":true,"n":[1,2]}`, "esc\x1bape without marker", "\x1bjso almost", "unicode é世界", "rpc error: code = NotFound desc = fake", "50% done", "fmt verbs %s %d %v %!", "100%",
	// long texts: a transport may be tempted to cap the status message; an embedded object must survive all the same
	strings.Repeat("long text ", 130), strings.Repeat("x", 70000),
	// text that LOOKS like JSON/HTML escapes (a literal backslash followed by u003c ...), quotes, control characters
	`regexp \u003ctag\u003e \u0026 \" \\ \n`, "ctl\x00\x01\x1f \"quoted\" <tag> & 'x'"}

func main() {
	run := ev.Parse("C19", "exploration")
	// message texts that are, or end with, the text of a class: a class is recognised by identity / status code, never by wording
	for _, c := range classes {
		texts = append(texts, "caused by: "+c.err.Error())
	}
	evals, nontriv := 0, 0
	var samples ev.Samples
	seen := map[string]bool{}
	fail := func(sig, detail string) {
		if seen[sig] {
			return
		}
		seen[sig] = true
		run.Violation(sig, detail, map[string]any{"case": detail})
	}
	for _, c := range classes {
		// "has a gRPC code": the library maps the bare class to a specific code. The table above is what the
		// unchanged tree does; a class that acquires a code through a change of the tables is covered as well.
		code := gerrors.GRPCStatusCode(c.err)
		if want, has := withCode[c.name]; has {
			if code != want {
				fail("class-code "+c.name, fmt.Sprintf("GRPCStatusCode(%s) = %v, the class is documented to map to %v", c.name, code, want))
			}
		} else if code == codes.Internal {
			continue // no code of its own (falls back to Internal)
		}
		for depth := 0; depth <= 4; depth++ {
			for embedAt := -1; embedAt <= depth; embedAt++ { // -1: no embedded object; k: embedded after k wraps
				if embedAt > 0 && embedAt < depth && depth > 2 {
					continue // embed position: innermost, outermost (and all positions for shallow chains)
				}
				for ti, text := range texts {
					for formIdx := 0; formIdx < 4; formIdx++ {
						for instIdx := -1; instIdx < len(instances[c.name]); instIdx++ {
							for objIdx := 0; objIdx < 4; objIdx++ {
								if embedAt < 0 && objIdx > 0 {
									continue
								}
								// the innermost error: the class itself, or (rotating) a real OS error that belongs to the class
								e := c.err
								inst := "class"
								if instIdx >= 0 {
									e = instances[c.name][instIdx]
									inst = fmt.Sprintf("%T", e)
								}
								// the embedded object: a struct, or (rotating) a string / slice / map
								var want any = obj{7, "x" + text}
								switch objIdx {
								case 1:
									want = "s:" + text
								case 2:
									want = []any{float64(1), "two:" + text}
								case 3:
									want = map[string]any{"k": text, "n": float64(3)}
								}
								// wrapping form of each layer: a single %w, two %w verbs in one layer, errors.Join
								form := []string{"%w", "%w+%w", "join", "%w-first"}[formIdx]
								for d := 0; d <= depth; d++ {
									if d == embedAt {
										if (ti+depth)%2 == 1 {
											// an embedding that cannot be made (not marshalable) leaves the error as it is - and leaves
											// nothing behind that could spoil the next one
											if e2 := gerrors.EmbedObject(make(chan int), e); e2.Error() != e.Error() {
												fail("embed-unmarshalable", fmt.Sprintf("EmbedObject of a channel changed the error text to %q", e2.Error()))
											}
										}
										e = gerrors.EmbedObject(want, e)
									}
									if d < depth {
										switch form {
										case "%w":
											e = fmt.Errorf("%s [layer %d]: %w", text, d, e)
										case "%w-first":
											// the wrapped error leads, the layer's own text ends the message
											e = fmt.Errorf("%w: [layer %d] %s", e, d, text)
										case "%w+%w":
											e = fmt.Errorf("%s [layer %d]: %w (while handling %w)", text, d, e, stderrors.New("plain side error"))
										default:
											if embedAt >= 0 && d >= embedAt {
												e = fmt.Errorf("%s [layer %d]: %w", text, d, e) // Join puts a newline between messages: keep the marker pair intact
											} else {
												e = stderrors.Join(e, stderrors.New("plain side error"))
											}
										}
									}
								}
								desc := fmt.Sprintf("class=%s innermost=%s depth=%d wrap=%s embedAt=%d text#%d", c.name, inst, depth, form, embedAt, ti)
								evals++
								nontriv++
								g := gerrors.GRPCWrap(e)
								if g == nil {
									fail("wrap-nil "+c.name, desc+": GRPCWrap returned nil")
									continue
								}
								if got := status.Code(g); got != code {
									fail("code "+c.name, fmt.Sprintf("%s: GRPCWrap produced code %v, class maps to %v", desc, got, code))
								}
								if !gerrors.Is(g, c.err) {
									fail("is-own-class "+c.name, desc+": Is(GRPCWrap(err), class) is false; error text "+fmt.Sprintf("%q", g.Error()))
								}
								for _, o := range classes {
									if o.name != c.name && gerrors.Is(g, o.err) {
										fail("is-other-class "+c.name+"->"+o.name, fmt.Sprintf("%s: Is(GRPCWrap(err), %s) is true", desc, o.name))
									}
								}
								// the plain chain itself also keeps exactly its class
								if !gerrors.Is(e, c.err) {
									fail("is-plain "+c.name, desc+": Is(err, class) is false before wrapping")
								}
								g2 := gerrors.GRPCWrap(g)
								if status.Code(g2) != status.Code(g) || g2.Error() != g.Error() {
									fail("idempotent "+c.name, fmt.Sprintf("%s: GRPCWrap(GRPCWrap(err)) = %q/%v differs from GRPCWrap(err) = %q/%v", desc, g2.Error(), status.Code(g2), g.Error(), status.Code(g)))
								}
								if gerrors.GRPCStatusCode(g) != code {
									fail("statuscode "+c.name, fmt.Sprintf("%s: GRPCStatusCode(GRPCWrap(err))=%v want %v", desc, gerrors.GRPCStatusCode(g), code))
								}
								extract := func(from error) (any, bool) {
									switch want.(type) {
									case obj:
										var got obj
										ok := gerrors.ExtractObject(from, &got)
										return got, ok
									case string:
										var got string
										ok := gerrors.ExtractObject(from, &got)
										return got, ok
									case []any:
										var got []any
										ok := gerrors.ExtractObject(from, &got)
										return got, ok
									default:
										var got map[string]any
										ok := gerrors.ExtractObject(from, &got)
										return got, ok
									}
								}
								kind := fmt.Sprintf("%T", want)
								if embedAt >= 0 {
									if got, ok := extract(e); !ok || !reflect.DeepEqual(got, want) {
										fail("extract-plain "+kind, fmt.Sprintf("%s: embedded %s object not extractable before GRPCWrap (got %#v, want %#v)", desc, kind, got, want))
									}
									if got, ok := extract(g); !ok || !reflect.DeepEqual(got, want) {
										fail("extract-wrapped "+kind+" "+c.name, fmt.Sprintf("%s: embedded %s object not extractable after GRPCWrap (got %#v) text %q", desc, kind, got, g.Error()))
									}
									// crossing the wire: only code and message survive
									wire := status.Error(status.Code(g), gerrors.FromGRPCErrorMsg(g))
									if got, ok := extract(wire); !ok || !reflect.DeepEqual(got, want) {
										fail("extract-wire "+kind+" "+c.name, fmt.Sprintf("%s: embedded object lost when only code+message cross the wire", desc))
									}
									if !gerrors.Is(wire, c.err) {
										fail("is-wire "+c.name, desc+": class lost when only code+message cross the wire")
									}
								} else if _, ok := extract(g); ok {
									fail("extract-phantom", desc+": ExtractObject reports an object although none was embedded")
								}
								if evals%997 == 1 {
									samples.Add(fmt.Sprintf("%s -> %q", desc, g.Error()))
								}
							}
						}
					}
				}
			}
		}
	}
	// every gRPC status code maps back to exactly one class
	for code := codes.Code(0); code <= 17; code++ {
		c := code
		if code == 17 {
			c = 99 // out of range
		}
		for _, msg := range texts {
			evals++
			st := status.Error(c, msg)
			back := gerrors.FromGRPCError(st)
			if c == codes.OK {
				if back != nil {
					fail("code-ok", "FromGRPCError(OK) is not nil")
				}
				continue
			}
			nontriv++
			if back == nil {
				fail(fmt.Sprintf("code-nil %v", c), fmt.Sprintf("FromGRPCError(status %v) returned nil for a non-OK code", c))
				continue
			}
			n := 0
			var which []string
			for _, o := range classes {
				if gerrors.Is(st, o.err) {
					n++
					which = append(which, o.name)
				}
			}
			if n != 1 {
				fail(fmt.Sprintf("code-classes %v", c), fmt.Sprintf("status code %v matches %d classes under Is: %v", c, n, which))
			}
			m := 0
			for _, o := range classes {
				if back == o.err {
					m++
				}
			}
			if m != 1 {
				fail(fmt.Sprintf("code-unknown-class %v", c), fmt.Sprintf("FromGRPCError(status %v) = %v is not one of the general classes", c, back))
			}
			// round trip class -> code -> class for classes with a code
			for name, cc := range withCode {
				if cc == c {
					for _, o := range classes {
						if o.name == name && back != o.err {
							fail("roundtrip "+name, fmt.Sprintf("class %s maps to code %v which maps back to %v", name, c, back))
						}
					}
				}
			}
		}
	}
	samples.Add("all status codes 0..16 and 99 x 27 message texts through status.Error -> FromGRPCError / Is")
	run.Finish(ev.Coverage{
		"evaluations": evals, "distinct_nontrivial": nontriv, "samples": samples.List, "exhaustive": true,
		"rule": "full finite product: 10 classes with a gRPC code x 12 classes x wrap depth 0..4 (each layer a single trailing %w, a leading %w, two %w verbs, or errors.Join), innermost error the class or a real OS error of the class, embedded object a struct / string / slice / map x embedded object position (none / innermost / outermost / every position for depth<=2) x 27 message texts (empty, colons, JSON, ESC without the marker, marker prefix, unicode, a fake rpc-error text, 1300 and 70000 bytes long, texts ending with the wording of each class); every other embedding is preceded by one of an unmarshalable object; plus all 17 gRPC codes and one out-of-range code x 27 texts. Every case is distinct; non-trivial = every case except the OK code",
	})
}
