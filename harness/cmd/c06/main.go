// C06 - KV storage: an expired record is indistinguishable from a deleted one.
package main

import (
	"context"
	"encoding/json"
	"fmt"
	"os"
	"os/exec"
	"sort"
	"strings"
	"time"

	"github.com/acquirecloud/golibs/kvs"
	"github.com/acquirecloud/golibs/kvs/inmem"
	"github.com/acquirecloud/golibs/zverif/vsched"
	"verifh/internal/bfs"
	"verifh/internal/ev"
	"verifh/internal/kvh"
)

// op kinds beyond kvh.Op: "clock" (Exp = 0: +20s, 1: +2000s) and "wait" (Ver = version kind)
const (
	short = 1 * time.Second
	long  = 1000 * time.Second
)

var steps = []time.Duration{2 * time.Second, 2000 * time.Second}

func alphabet(keys []string, thorough bool, inmemory bool) []kvh.Op {
	var ops []kvh.Op
	for _, k := range keys {
		for e := 0; e <= 2; e++ {
			ops = append(ops, kvh.Op{Kind: "create", Key: k, Val: 2, Exp: e})
			ops = append(ops, kvh.Op{Kind: "put", Key: k, Val: 2, Exp: e})
		}
		ops = append(ops, kvh.Op{Kind: "cas", Key: k, Val: 3, Exp: 0, Ver: kvh.VCurrent}, kvh.Op{Kind: "cas", Key: k, Val: 3, Exp: 1, Ver: kvh.VCurrent})
		ops = append(ops, kvh.Op{Kind: "cas", Key: k, Val: 3, Exp: 0, Ver: kvh.VStale}, kvh.Op{Kind: "cas", Key: k, Val: 3, Exp: 0, Ver: kvh.VNever})
		ops = append(ops, kvh.Op{Kind: "get", Key: k}, kvh.Op{Kind: "delete", Key: k})
		ops = append(ops, kvh.Op{Kind: "put", Key: k, Val: 2, Exp: 3}, kvh.Op{Kind: "cas", Key: k, Val: 3, Exp: 3, Ver: kvh.VCurrent})
		ops = append(ops, kvh.Op{Kind: "wait", Key: k, Ver: kvh.VCurrent})
		// expiration instants that no int64 of nanoseconds can hold: the "never" sentinel 9999-12-31 (in the future: served) ...
		if inmemory || thorough { // (over Redis every transition is a batch of round trips: the quick tier keeps the sentinel for the in-memory backend)
			ops = append(ops, kvh.Op{Kind: "put", Key: k, Val: 2, Exp: 4}, kvh.Op{Kind: "cas", Key: k, Val: 3, Exp: 4, Ver: kvh.VCurrent})
		}
		if inmemory {
			// ... and 1000-01-01 (in the past: the write succeeds and the record is gone). Not over Redis, whose smallest TTL is 1ms.
			ops = append(ops, kvh.Op{Kind: "put", Key: k, Val: 2, Exp: 5}, kvh.Op{Kind: "create", Key: k, Val: 2, Exp: 5})
		}
		if thorough {
			ops = append(ops, kvh.Op{Kind: "wait", Key: k, Ver: kvh.VNever}, kvh.Op{Kind: "cas", Key: k, Val: 3, Exp: 2, Ver: kvh.VEmpty})
			ops = append(ops, kvh.Op{Kind: "putmany", Keys: []string{k, k}, Vals: []int{2, 3}, Exps: []int{1, 0}})
		}
	}
	a, b := keys[0], keys[len(keys)-1]
	ops = append(ops,
		kvh.Op{Kind: "putmany", Keys: []string{a, b}, Vals: []int{2, 2}, Exps: []int{1, 0}},
		kvh.Op{Kind: "putmany", Keys: []string{a, b}, Vals: []int{3, 3}, Exps: []int{2, 1}},
		kvh.Op{Kind: "putmany", Keys: []string{a, a}, Vals: []int{2, 3}, Exps: []int{1, 0}},
		kvh.Op{Kind: "getmany", Keys: []string{a, b}},
		kvh.Op{Kind: "list", Pat: "*"},
		kvh.Op{Kind: "clock", Exp: 0}, kvh.Op{Kind: "clock", Exp: 1},
	)
	return ops
}

type result struct {
	Key   string
	Sig   string
	Det   string
	Infra string
}

// runPath replays path on backend (fresh) inside one single-thread execution of the scheduler.
func runPath(be kvh.Backend, rd *kvh.RedisBackend, path []kvh.Op, keys []string, maxClock int) (res result) {
	base := vsched.Epoch0
	var cut bool
	scenario := func() {
		if rd != nil {
			vsched.SetClockForward(rd.FastForward)
		}
		st := be.Fresh()
		m := kvh.NewModel()
		m.WriterInKey = rd == nil || os.Getenv("VERIF_TIER_THOROUGH") != "" // in-memory: always; Redis: thorough tier (each transition is a round trip)
		d := kvh.NewDriver(be.Name(), st, base)
		d.ExpDur = []time.Duration{0, short, long, 500 * time.Microsecond, kvh.ExpNeverSentinel, kvh.ExpAncient} // 3: a life-time below one millisecond (still in the future)
		clocks := 0
		now := func() time.Time { return base.Add(vsched.NowPeek()) }
		// keys whose record has expired and that no operation has touched since ("first touch" still pending):
		// the harness must not read them behind the scenes, a lazy implementation would purge them on that read
		pristine := map[string]bool{}
		expireModel := func() {
			for k, r := range m.Recs {
				if r.Exp != nil && !r.Exp.After(now()) {
					pristine[k] = true
				}
			}
			m.Expire(now())
		}
		touch := func(o kvh.Op) {
			switch o.Kind {
			case "list":
				for k := range pristine {
					delete(pristine, k)
				}
			case "getmany", "putmany":
				for _, k := range o.Keys {
					delete(pristine, k)
				}
			default:
				delete(pristine, o.Key)
			}
		}
		for i, o := range path {
			last := i == len(path)-1
			var cl, det string
			d.Base = now() // expiry instants are relative to the (virtual) time of the write: always in the future
			switch o.Kind {
			case "clock":
				clocks++
				vsched.Sleep(steps[o.Exp])
				expireModel()
			case "wait":
				expireModel()
				touch(o)
				cl, det = waitOp(d, m, o, now)
				expireModel()
			default:
				expireModel()
				touch(o)
				w := m.Apply(o, d)
				cl, det = d.Exec(o, w)
			}
			if cl == "" {
				expireModel()
				var obs []string
				for _, k := range keys {
					if !pristine[k] {
						obs = append(obs, k)
					}
				}
				cl, det = d.Observe(o, m, obs)
			}
			if cl == "" && len(pristine) == 0 {
				// never dropped early: everything the model still holds must be listed
				cl, det = d.Exec(kvh.Op{Kind: "list", Pat: "*"}, m.Apply(kvh.Op{Kind: "list", Pat: "*"}, d))
				if cl != "" {
					cl = d.Name + " " + o.Target() + ":then list"
				}
			}
			if cl != "" {
				if last {
					res.Sig, res.Det = cl, det
				} else {
					cut = true
				}
				return
			}
		}
		var pk []string
		for _, k := range keys {
			if pristine[k] {
				if m.WriterInKey {
					// the expired record is still physically there in a lazy implementation: how it was written matters
					pk = append(pk, k+"<"+m.Writer[k])
				} else {
					pk = append(pk, k)
				}
			}
		}
		res.Key = fmt.Sprintf("%s#c%d#untouched-expired%v", m.CanonKeyAt(d, keys, now()), clocks, pk)
		if rd == nil {
			// in-memory: the complete implementation state (life-times bucketed like in the model key)
			res.Key += " | " + d.ImplDumpAt(func(t time.Time) string {
				switch rem := t.Sub(now()); {
				case rem <= 0:
					return "expired"
				case rem <= time.Millisecond:
					return "sub-ms"
				case rem <= 5*time.Second:
					return "short"
				case rem > 100*365*24*time.Hour:
					return "far"
				}
				return "long"
			})
		}
		if clocks >= maxClock {
			res.Key += "!"
		}
	}
	x := vsched.RunDefault(vsched.Config{MaxSteps: 2_000_000}, scenario)
	if len(x.Panics) > 0 {
		res.Sig, res.Det = be.Name()+" panic", x.Panics[0]
	} else if x.Outcome != vsched.Completed && res.Sig == "" {
		res.Sig, res.Det = be.Name()+" "+lastTarget(path)+":"+x.Outcome.String(), fmt.Sprintf("the operation did not return (%s; blocked: %v)", x.Outcome, x.Blocked)
	}
	if cut {
		res = result{Key: ""}
	}
	return
}

func lastTarget(p []kvh.Op) string {
	if len(p) == 0 {
		return ""
	}
	return p[len(p)-1].Target()
}

func waitOp(d *kvh.Driver, m *kvh.Model, o kvh.Op, now func() time.Time) (string, string) {
	ver, ok := d.VerArg(o.Key, o.Ver)
	if !ok {
		ver = "01HZZZZZZZZZZZZZZZZZZZZZZY"
	}
	// prescription
	r, present := m.Recs[o.Key]
	want := "blocked"
	switch {
	case !present:
		want = "ErrNotExist"
	case o.Ver != kvh.VCurrent:
		want = "nil"
	case r.Exp != nil && !r.Exp.After(now().Add(steps[0])):
		want = "ErrNotExist" // expires while waiting
	}
	done := false
	var werr error
	ctx, cancel := context.WithCancel(context.Background())
	defer cancel()
	vsched.GoNamed("waiter", func() {
		werr = d.St.WaitForVersionChange(ctx, o.Key, ver)
		done = true
	})
	vsched.Sleep(steps[0])
	vsched.AwaitBlocked()
	got := ""
	if !done {
		cancel()
		vsched.WaitFor("waiter", func() bool { return done })
		got = "blocked"
	} else {
		got = kvh.ErrClass(werr)
	}
	m.Expire(now())
	if got != want {
		exp := "none"
		if present && r.Exp != nil {
			exp = fmt.Sprint(r.Exp.Sub(vsched.Epoch0))
		}
		return d.Name + " " + o.Target() + ":result", fmt.Sprintf("%s: WaitForVersionChange(%s, %s version) observed for %v of virtual time: %s, contract says %s (record present=%v, expires at +%s, now +%v)", d.Name, o.Key, o.Ver, steps[0], got, want, present, exp, vsched.NowPeek())
	}
	return "", ""
}

var _ = kvs.Record{}

func main() {
	run := ev.Parse("C06", "model_checking")
	keys := []string{"a", "b"}
	be := os.Getenv("C06_BACKEND")
	if be == "" {
		// parent: one child process per backend (the scheduler is a process singleton), results merged
		exe, _ := os.Executable()
		type out struct {
			Stats bfs.Stats
			Found []struct {
				Sig, Det string
				Path     []string
			}
			Infra string
		}
		names := []string{"inmem", "redis", "conc"}
		outs := make([]out, 3)
		errs := make([]error, 3)
		doneCh := make(chan int, 3)
		for i, n := range names {
			go func(i int, n string) {
				cmd := exec.Command(exe, "-tier", run.Tier)
				cmd.Env = append(os.Environ(), "C06_BACKEND="+n, "GOMAXPROCS=4")
				if run.Thorough() {
					cmd.Env = append(cmd.Env, "VERIF_TIER_THOROUGH=1")
				}
				cmd.Stderr = os.Stderr
				b, err := cmd.Output()
				errs[i] = err
				if err == nil {
					lines := strings.Split(strings.TrimSpace(string(b)), "\n")
					errs[i] = json.Unmarshal([]byte(lines[len(lines)-1]), &outs[i])
				}
				doneCh <- i
			}(i, n)
		}
		<-doneCh
		<-doneCh
		<-doneCh
		var samples ev.Samples
		states, trans := 0, int64(0)
		fix := true
		per := map[string]any{}
		for i, n := range names {
			if errs[i] != nil {
				ev.Infra("backend %s: %v", n, errs[i])
			}
			if outs[i].Infra != "" {
				ev.Infra("backend %s: %s", n, outs[i].Infra)
			}
			st := outs[i].Stats
			states += st.States
			trans += st.Transitions
			fix = fix && st.Fixpoint
			per[n] = map[string]any{"states": st.States, "transitions": st.Transitions, "depth": st.Depth, "fixpoint": st.Fixpoint, "capped": st.Capped}
			for _, f := range outs[i].Found {
				run.Violation(f.Sig, f.Det+"\nhistory: "+strings.Join(f.Path, "; "), map[string]any{"backend": n, "ops": f.Path})
			}
			samples.Add(fmt.Sprintf("%s: states=%d transitions=%d depth=%d fixpoint=%v %s", n, st.States, st.Transitions, st.Depth, st.Fixpoint, st.Capped))
		}
		samples.Add("example history: put(a,v2,e1) [expires +10s]; clock(+20s); create(a,v2,e0) [first touch of the expired key]; get(a)")
		run.Assume = []string{"virtual clock: time.Now of the rewritten backends and the miniredis TTL clock are driven by the harness (FastForward tied to the virtual clock)", "records are written with expiry >= 10s in the future and time moves in steps of 20s/2000s, so Redis' millisecond TTL granularity is never what is tested"}
		run.Finish(ev.Coverage{
			"states": states, "transitions": trans, "traces_validated_against_impl": trans, "samples": samples.List,
			"exhaustive": fix, "fixpoint": fix, "per_backend": per,
			"rule": "(conc, Engine S on the in-memory backend, every schedule within P<=2) 2-3 concurrent waiters on one expiring record with cancellers on every proper subset: each waiter that was not cancelled ends with ErrNotExist after the expiration; a writer (Put / Put without expiry / CasByVersion / Create) acting exactly at, 1ms before and 1ms after the expiration under 1-2 sleeping waiters: the renewed record is served by every operation kind and is gone after its own expiration; a waiter arriving -12..+3 ns from the expiration instant ends with ErrNotExist; 1-2 readers (Get / GetMany / ListKeys / Delete) racing a writer (Create / Put / PutMany) on an expired, untouched record: the fresh record survives; (per backend) BFS over all histories over keys a,b of writes (Create/Put/PutMany/CasByVersion) with expiry none/+1s/+1000s/+500us, clock steps +20s/+2000s (at most 3 per history) and every operation kind as first and later touch of an expired key (Get, GetMany, CasByVersion(current), Delete, Create, ListKeys, WaitForVersionChange observed for 2s of virtual time), to a fixpoint of (model state with remaining lifetimes, clock steps used); every transition replays the history on a fresh backend inside one execution of the controlled scheduler (virtual time); oracle: KV model that deletes a record at its expiration instant, full observable state + ListKeys compared after every operation",
		})
		return
	}
	if be == "conc" {
		concurrentWaiters(run)
		return
	}
	// child: one backend
	t0 := time.Now()
	var backend kvh.Backend
	var rd *kvh.RedisBackend
	if be == "redis" {
		rd = kvh.NewRedis(false)
		backend = rd
	} else {
		backend = kvh.NewInmem()
	}
	al := alphabet(keys, run.Thorough(), be == "inmem")
	maxClock := 3
	deadline := time.Now().Add(3 * time.Minute)
	if run.Thorough() {
		deadline = time.Now().Add(20 * time.Minute)
	}
	var noClock []kvh.Op
	for _, o := range al {
		if o.Kind != "clock" {
			noClock = append(noClock, o)
		}
	}
	if os.Getenv("C06_DEBUG") != "" {
		path := []kvh.Op{{Kind: "create", Key: "a", Val: 2, Exp: 0}, {Kind: "cas", Key: "a", Val: 3, Exp: 1, Ver: kvh.VCurrent}, {Kind: "clock", Exp: 0}, {Kind: "list", Pat: "*"}}
		for i := 1; i <= len(path); i++ {
			r := runPath(backend, rd, path[:i], keys, maxClock)
			fmt.Fprintf(os.Stderr, "DEBUG %v -> key=%q sig=%q det=%q\n", path[:i], r.Key, r.Sig, r.Det)
		}
		os.Exit(0)
	}
	sp := bfs.Spec[kvh.Op]{
		Serial:   true,
		Deadline: deadline,
		Run: func(path []kvh.Op) (string, []kvh.Op, *bfs.Violation) {
			r := runPath(backend, rd, path, keys, maxClock)
			if r.Sig != "" {
				return "", nil, &bfs.Violation{Sig: r.Sig, Detail: r.Det}
			}
			if r.Key == "" {
				return "", nil, nil
			}
			if strings.HasSuffix(r.Key, "!") {
				return r.Key, noClock, nil
			}
			return r.Key, al, nil
		},
	}
	st, found := bfs.Explore(sp)
	type fo struct {
		Sig, Det string
		Path     []string
	}
	var fs []fo
	for _, f := range found {
		var ps []string
		for _, o := range f.Path {
			ps = append(ps, o.String())
		}
		fs = append(fs, fo{f.V.Sig, f.V.Detail, ps})
	}
	fmt.Fprintf(os.Stderr, "C06 backend %s: %d states, %d transitions, %.1fs\n", be, st.States, st.Transitions, time.Since(t0).Seconds())
	b, _ := json.Marshal(map[string]any{"Stats": st, "Found": fs})
	fmt.Println(string(b))
}

// concurrentWaiters: several waiters on one expiring record, some of them cancelled before the expiration,
// nothing else touches the key. Every waiter that was not cancelled must end with ErrNotExist once the
// expiration time has passed - whichever waiter registered first, whichever gave up. Every schedule within P<=2.
func concurrentWaiters(run *ev.Run) {
	fine := vsched.Mask(vsched.KLock, vsched.KChan, vsched.KEnv, vsched.KSleep)
	st := bfs.Stats{Fixpoint: true}
	type fo struct {
		Sig, Det string
		Path     []string
	}
	var fs []fo
	for n := 2; n <= 3; n++ {
		for mask := 0; mask < 1<<n-1; mask++ {
			n, mask := n, mask
			var problem string
			scenario := func() {
				problem = ""
				be := kvh.NewInmem()
				s := be.Fresh()
				ctx := context.Background()
				exp := vsched.Epoch0.Add(vsched.NowPeek() + short)
				ver, err := s.Create(ctx, kvs.Record{Key: "a", Value: []byte("x"), ExpiresAt: &exp})
				if err != nil {
					panic(err)
				}
				res := make([]string, n)
				done := make([]bool, n)
				cancelled := make([]bool, n)
				cancels := make([]context.CancelFunc, n)
				for i := 0; i < n; i++ {
					i := i
					wctx, cancel := context.WithCancel(ctx)
					cancels[i] = cancel
					if mask&(1<<i) != 0 {
						vsched.Pseudo(fmt.Sprintf("cancel%d", i), nil, func() { cancelled[i] = true; cancel(); vsched.Note("cancel %d", i) })
					}
					vsched.GoNamed(fmt.Sprintf("w%d", i), func() {
						res[i] = kvh.ErrClass(s.WaitForVersionChange(wctx, "a", ver))
						done[i] = true
						vsched.Note("waiter %d -> %s", i, res[i])
					})
				}
				vsched.Sleep(steps[0])
				vsched.AwaitBlocked()
				vsched.DropPseudos()
				for i := 0; i < n; i++ {
					if !done[i] && !cancelled[i] && problem == "" {
						problem = fmt.Sprintf("%d waiters on one record that expired at +%v (cancellers on waiters %b): at +%v waiter %d is still blocked, it must have ended with ErrNotExist", n, short, mask, vsched.NowPeek(), i)
					}
					if done[i] && res[i] != "ErrNotExist" && !(cancelled[i] && res[i] == "Canceled") && problem == "" {
						problem = fmt.Sprintf("waiter %d returned %s", i, res[i])
					}
				}
				for i := range cancels {
					cancels[i]()
				}
				vsched.WaitFor("all", func() bool {
					for _, d := range done {
						if !d {
							return false
						}
					}
					return true
				})
			}
			e := &vsched.Explorer{Cfg: vsched.Config{P: 2, Preempt: fine, MaxSteps: 20000}, Scenario: scenario, StopAtFirst: true,
				Check: func(x *vsched.Exec) (string, *vsched.Violation) {
					if len(x.Panics) > 0 {
						return "panic", &vsched.Violation{Sig: "inmem concurrent-waiters panic", Detail: x.Panics[0]}
					}
					if problem != "" {
						return "v", &vsched.Violation{Sig: "inmem concurrent-waiters:blocked-after-expiry", Detail: problem + "\nnotes: " + strings.Join(x.Notes, " / ")}
					}
					if x.Outcome != vsched.Completed {
						return "v", &vsched.Violation{Sig: "inmem concurrent-waiters:" + x.Outcome.String(), Detail: fmt.Sprint(x.Blocked)}
					}
					return "ok", nil
				}}
			e.Run()
			if e.InfraErr != "" {
				b, _ := json.Marshal(map[string]any{"Infra": e.InfraErr})
				fmt.Println(string(b))
				return
			}
			st.States += int(e.Stats.TreeNodes)
			st.Transitions += e.Stats.Steps
			if e.Found != nil {
				fs = append(fs, fo{e.Found.Sig, e.Found.Detail, []string{fmt.Sprintf("waiters=%d cancel-mask=%b schedule=%v", n, mask, e.FoundPath)}})
			}
		}
	}
	// fourth family: readers and a writer meet on an expired record that nothing has touched yet (the lazy purge is still
	// pending). Whoever purges it, the writer's fresh record (expiration in the future or none) must survive
	for _, reader := range []string{"get", "getmany", "list", "delete"} {
		for _, writer := range []string{"create", "put", "putmany"} {
			for readers := 1; readers <= 2; readers++ {
				reader, writer, readers := reader, writer, readers
				if readers == 2 && reader == "delete" {
					continue
				}
				var problem string
				scenario := func() {
					problem = ""
					be := kvh.NewInmem()
					s := be.Fresh()
					ctx := context.Background()
					now := func() time.Time { return vsched.Epoch0.Add(vsched.NowPeek()) }
					exp := now().Add(short)
					if _, err := s.Create(ctx, kvs.Record{Key: "a", Value: []byte("old"), ExpiresAt: &exp}); err != nil {
						panic(err)
					}
					vsched.Sleep(steps[0]) // the record is expired now, and untouched
					done := make([]bool, readers+1)
					werr := ""
					for r := 0; r < readers; r++ {
						r := r
						vsched.GoNamed(fmt.Sprintf("r%d", r), func() {
							defer func() { done[r] = true }()
							switch reader {
							case "get":
								if rec, err := s.Get(ctx, "a"); err == nil && string(rec.Value) == "old" && problem == "" {
									problem = "Get(a) served the expired record"
								}
							case "getmany":
								if rs, err := s.GetMany(ctx, "a"); err == nil && len(rs) == 1 && rs[0] != nil && string(rs[0].Value) == "old" && problem == "" {
									problem = "GetMany(a) served the expired record"
								}
							case "list":
								if it, err := s.ListKeys(ctx, "*"); err == nil {
									for it.HasNext() {
										it.Next()
									}
									it.Close()
								}
							case "delete":
								s.Delete(ctx, "a") // ErrNotExist (expired) or nil (it removed the writer's record): both are fine for the caller
							}
						})
					}
					deleted := false
					vsched.GoNamed("w", func() {
						defer func() { done[readers] = true }()
						t := now().Add(long)
						rec := kvs.Record{Key: "a", Value: []byte("fresh"), ExpiresAt: &t}
						var err error
						switch writer {
						case "create":
							_, err = s.Create(ctx, rec)
						case "put":
							_, err = s.Put(ctx, rec)
						case "putmany":
							err = s.PutMany(ctx, []kvs.Record{rec})
						}
						werr = kvh.ErrClass(err)
					})
					vsched.WaitFor("all", func() bool {
						for _, d := range done {
							if !d {
								return false
							}
						}
						return true
					})
					_ = deleted
					if werr != "nil" && problem == "" {
						problem = fmt.Sprintf("%s of an expired key returned %s (an expired record is a deleted one)", writer, werr)
					}
					if reader != "delete" && problem == "" {
						if rec, err := s.Get(ctx, "a"); err != nil || string(rec.Value) != "fresh" {
							problem = fmt.Sprintf("after %d x %s racing %s on the expired key: Get(a) = %q, %s; the fresh record (expires in %v) was dropped", readers, reader, writer, rec.Value, kvh.ErrClass(err), long)
						}
					}
				}
				e := &vsched.Explorer{Cfg: vsched.Config{P: 2, Preempt: fine, MaxSteps: 20000}, Scenario: scenario, StopAtFirst: true,
					Check: func(x *vsched.Exec) (string, *vsched.Violation) {
						if len(x.Panics) > 0 {
							return "panic", &vsched.Violation{Sig: "inmem purge-race panic", Detail: x.Panics[0]}
						}
						if problem != "" {
							return "v", &vsched.Violation{Sig: "inmem purge-race " + reader + "/" + writer, Detail: problem + "\nnotes: " + strings.Join(x.Notes, " / ")}
						}
						if x.Outcome != vsched.Completed {
							return "v", &vsched.Violation{Sig: "inmem purge-race:" + x.Outcome.String(), Detail: fmt.Sprint(x.Blocked)}
						}
						return "ok", nil
					}}
				e.Run()
				if e.InfraErr != "" {
					b, _ := json.Marshal(map[string]any{"Infra": e.InfraErr})
					fmt.Println(string(b))
					return
				}
				st.States += int(e.Stats.TreeNodes)
				st.Transitions += e.Stats.Steps
				if e.Found != nil {
					fs = append(fs, fo{e.Found.Sig, e.Found.Detail, []string{fmt.Sprintf("purge race readers=%d %s writer=%s schedule=%v", readers, reader, writer, e.FoundPath)}})
				}
			}
		}
	}
	// a large number of expired, untouched records (sweeps with a budget, batches, paging): none of them is served
	{
		var problem string
		const many = 2600
		scenario := func() {
			problem = ""
			be := kvh.NewInmem()
			s := be.Fresh()
			ctx := context.Background()
			now := func() time.Time { return vsched.Epoch0.Add(vsched.NowPeek()) }
			exp, far := now().Add(short), now().Add(long)
			for i := 0; i < many; i++ {
				s.Create(ctx, kvs.Record{Key: fmt.Sprintf("k%04d", i), Value: []byte("x"), ExpiresAt: &exp})
			}
			s.Create(ctx, kvs.Record{Key: "keep-long", Value: []byte("x"), ExpiresAt: &far})
			s.Create(ctx, kvs.Record{Key: "keep-forever", Value: []byte("x")})
			vsched.Sleep(steps[0])
			it, err := s.ListKeys(ctx, "*")
			var got []string
			if err == nil {
				for it.HasNext() {
					k, _ := it.Next()
					got = append(got, k)
				}
				it.Close()
			}
			sort.Strings(got)
			if fmt.Sprint(got) != "[keep-forever keep-long]" {
				n := len(got)
				if n > 6 {
					got = got[:6]
				}
				problem = fmt.Sprintf("%d records expired and untouched, 2 alive: ListKeys(*) as the first touch returned %d keys (%v ...), expected [keep-forever keep-long]", many, n, got)
			}
			for i := 0; i < many && problem == ""; i += 97 {
				if _, err := s.Get(ctx, fmt.Sprintf("k%04d", i)); err == nil {
					problem = fmt.Sprintf("Get(k%04d) serves an expired record", i)
				}
			}
		}
		e := &vsched.Explorer{Cfg: vsched.Config{P: 0, Preempt: fine, MaxSteps: 2_000_000}, Scenario: scenario, StopAtFirst: true,
			Check: func(x *vsched.Exec) (string, *vsched.Violation) {
				if len(x.Panics) > 0 {
					return "panic", &vsched.Violation{Sig: "inmem many-expired panic", Detail: x.Panics[0]}
				}
				if problem != "" {
					return "v", &vsched.Violation{Sig: "inmem many-expired", Detail: problem}
				}
				if x.Outcome != vsched.Completed {
					return "v", &vsched.Violation{Sig: "inmem many-expired:" + x.Outcome.String(), Detail: fmt.Sprint(x.Blocked)}
				}
				return "ok", nil
			}}
		e.Run()
		if e.InfraErr != "" {
			b, _ := json.Marshal(map[string]any{"Infra": e.InfraErr})
			fmt.Println(string(b))
			return
		}
		st.States += int(e.Stats.TreeNodes)
		st.Transitions += e.Stats.Steps
		if e.Found != nil {
			fs = append(fs, fo{e.Found.Sig, e.Found.Detail, []string{"2600 expired records, ListKeys as first touch"}})
		}
	}
	// third family: a waiter that arrives within a few nanoseconds of the expiration instant (the implementation reads
	// the clock more than once on its way in; the virtual clock ticks 1ns per read, so the sweep puts the expiration
	// between any two of those reads): it ends with ErrNotExist, it does not sleep on the dead record
	for off := -12; off <= 3; off++ {
		off := off
		var problem string
		scenario := func() {
			problem = ""
			be := kvh.NewInmem()
			s := be.Fresh()
			ctx := context.Background()
			now := func() time.Time { return vsched.Epoch0.Add(vsched.NowPeek()) }
			exp := now().Add(short)
			ver, err := s.Create(ctx, kvs.Record{Key: "a", Value: []byte("x"), ExpiresAt: &exp})
			if err != nil {
				panic(err)
			}
			res, done := "", false
			wctx, cancel := context.WithCancel(ctx)
			vsched.GoNamed("w", func() {
				vsched.Sleep(exp.Sub(now()) + time.Duration(off))
				res = kvh.ErrClass(s.WaitForVersionChange(wctx, "a", ver))
				done = true
			})
			vsched.Sleep(short + steps[0])
			vsched.AwaitBlocked()
			if !done {
				problem = fmt.Sprintf("a waiter that called WaitForVersionChange %dns from the expiration instant is still blocked %v later", off, steps[0])
			} else if res != "ErrNotExist" {
				problem = fmt.Sprintf("waiter arriving %dns from the expiration instant returned %s", off, res)
			}
			cancel()
			vsched.WaitFor("w", func() bool { return done })
		}
		e := &vsched.Explorer{Cfg: vsched.Config{P: 0, Preempt: fine, MaxSteps: 20000}, Scenario: scenario, StopAtFirst: true,
			Check: func(x *vsched.Exec) (string, *vsched.Violation) {
				if len(x.Panics) > 0 {
					return "panic", &vsched.Violation{Sig: "inmem waiter-at-expiry panic", Detail: x.Panics[0]}
				}
				if problem != "" {
					return "v", &vsched.Violation{Sig: "inmem waiter-at-expiry-instant", Detail: problem}
				}
				if x.Outcome != vsched.Completed {
					return "v", &vsched.Violation{Sig: "inmem waiter-at-expiry:" + x.Outcome.String(), Detail: fmt.Sprint(x.Blocked)}
				}
				return "ok", nil
			}}
		e.Run()
		if e.InfraErr != "" {
			b, _ := json.Marshal(map[string]any{"Infra": e.InfraErr})
			fmt.Println(string(b))
			return
		}
		st.States += int(e.Stats.TreeNodes)
		st.Transitions += e.Stats.Steps
		if e.Found != nil {
			fs = append(fs, fo{e.Found.Sig, e.Found.Detail, []string{fmt.Sprintf("waiter arrives %dns from the expiration schedule=%v", off, e.FoundPath)}})
		}
	}
	// second family: a writer renews the record at (or just before / after) the instant it expires while 1-2 waiters
	// sleep on it. Whatever the order of the expiry wake-up, the renewal and the waiters' bookkeeping: the renewed
	// record (expiration in the future) must be served by every operation kind, and must be gone after ITS expiration.
	type renewal struct {
		kind string        // put | putforever | cas | create (create can only succeed once the old record counts as absent)
		at   time.Duration // when the writer acts, relative to the expiration instant (0: aligned with the waiters' wake-up)
	}
	var rens []renewal
	for _, k := range []string{"put", "putforever", "cas", "create"} {
		for _, at := range []time.Duration{0, -time.Millisecond, time.Millisecond} {
			rens = append(rens, renewal{k, at})
		}
	}
	for n := 1; n <= 2; n++ {
		for _, rn := range rens {
			n, rn := n, rn
			var problem string
			scenario := func() {
				problem = ""
				be := kvh.NewInmem()
				s := be.Fresh()
				ctx := context.Background()
				now := func() time.Time { return vsched.Epoch0.Add(vsched.NowPeek()) }
				exp := now().Add(short)
				ver, err := s.Create(ctx, kvs.Record{Key: "a", Value: []byte("x"), ExpiresAt: &exp})
				if err != nil {
					panic(err)
				}
				res := make([]string, n)
				done := make([]bool, n)
				cancels := make([]context.CancelFunc, n)
				for i := 0; i < n; i++ {
					i := i
					wctx, cancel := context.WithCancel(ctx)
					cancels[i] = cancel
					vsched.GoNamed(fmt.Sprintf("w%d", i), func() {
						res[i] = kvh.ErrClass(s.WaitForVersionChange(wctx, "a", ver))
						done[i] = true
						vsched.Note("waiter %d -> %s", i, res[i])
					})
				}
				vsched.AwaitBlocked() // the waiters are parked, their expiry timers are armed
				var wexp *time.Time
				wrote, wdone, werr := false, false, ""
				vsched.GoNamed("writer", func() {
					defer func() { wdone = true }()
					vsched.SleepAlign(exp.Sub(now())+rn.at, 100*time.Microsecond)
					rec := kvs.Record{Key: "a", Value: []byte("renewed")}
					if rn.kind != "putforever" {
						t := now().Add(long)
						rec.ExpiresAt = &t
					}
					var err error
					switch rn.kind {
					case "put", "putforever":
						_, err = s.Put(ctx, rec)
					case "cas":
						rec.Version = ver
						_, err = s.CasByVersion(ctx, rec)
					case "create":
						_, err = s.Create(ctx, rec)
					}
					werr = kvh.ErrClass(err)
					wrote = err == nil
					wexp = rec.ExpiresAt
					vsched.Note("writer %s -> %s", rn.kind, werr)
				})
				vsched.WaitFor("writer", func() bool { return wdone })
				vsched.Sleep(steps[0])
				vsched.AwaitBlocked()
				fail := func(f string, a ...any) {
					if problem == "" {
						problem = fmt.Sprintf("%d waiter(s) on a record expiring at +%v, %s at %+v from that instant (-> %s): ", n, short, rn.kind, rn.at, werr) + fmt.Sprintf(f, a...)
					}
				}
				if rn.kind == "put" || rn.kind == "putforever" {
					if !wrote {
						fail("Put failed")
					}
				} else if !wrote && werr != map[string]string{"cas": "ErrNotExist", "create": "ErrExist"}[rn.kind] {
					fail("undocumented result")
				}
				for i := 0; i < n; i++ {
					if !done[i] {
						fail("waiter %d is still blocked at +%v", i, vsched.NowPeek())
					} else if res[i] != "ErrNotExist" && res[i] != "nil" {
						fail("waiter %d returned %s", i, res[i])
					}
				}
				// the record written by a successful writer has its expiration in the future (or none): it is there for every operation kind
				present := func(when string, want bool) {
					r, err := s.Get(ctx, "a")
					if want && (err != nil || string(r.Value) != "renewed") {
						fail("%s: Get(a) = %q, %s; the renewed record (expires %v) must be served", when, r.Value, kvh.ErrClass(err), wexp)
					}
					if !want && err == nil {
						fail("%s: Get(a) still serves %q", when, r.Value)
					}
					it, err := s.ListKeys(ctx, "*")
					listed := false
					if err == nil {
						for it.HasNext() {
							k, _ := it.Next()
							listed = listed || k == "a"
						}
						it.Close()
					}
					if listed != want {
						fail("%s: ListKeys lists a = %v, expected %v", when, listed, want)
					}
					rs, err := s.GetMany(ctx, "a")
					if got := err == nil && len(rs) == 1 && rs[0] != nil; got != want {
						fail("%s: GetMany(a) finds it = %v, expected %v", when, got, want)
					}
				}
				present("2s after the write", wrote)
				if tbl := inmem.VerifWaiters(s); len(tbl) != 0 {
					fail("every waiter returned but the waiter table still holds %v", tbl)
				}
				if wrote && wexp != nil {
					vsched.Sleep(steps[1])
					present("after the renewed record's own expiration", false)
				}
				for i := range cancels {
					cancels[i]()
				}
				vsched.WaitFor("all", func() bool {
					for _, d := range done {
						if !d {
							return false
						}
					}
					return true
				})
			}
			name := fmt.Sprintf("renewal waiters=%d writer=%s at=%v", n, rn.kind, rn.at)
			e := &vsched.Explorer{Cfg: vsched.Config{P: 2, Preempt: fine, MaxSteps: 20000}, Scenario: scenario, StopAtFirst: true,
				Check: func(x *vsched.Exec) (string, *vsched.Violation) {
					if len(x.Panics) > 0 {
						return "panic", &vsched.Violation{Sig: "inmem renewal-at-expiry panic", Detail: x.Panics[0]}
					}
					if problem != "" {
						return "v", &vsched.Violation{Sig: "inmem renewal-at-expiry " + rn.kind, Detail: problem + "\nnotes: " + strings.Join(x.Notes, " / ")}
					}
					if x.Outcome != vsched.Completed {
						return "v", &vsched.Violation{Sig: "inmem renewal-at-expiry:" + x.Outcome.String(), Detail: fmt.Sprint(x.Blocked)}
					}
					return "ok", nil
				}}
			e.Run()
			if e.InfraErr != "" {
				b, _ := json.Marshal(map[string]any{"Infra": e.InfraErr})
				fmt.Println(string(b))
				return
			}
			st.States += int(e.Stats.TreeNodes)
			st.Transitions += e.Stats.Steps
			if e.Found != nil {
				fs = append(fs, fo{e.Found.Sig, e.Found.Detail, []string{fmt.Sprintf("%s schedule=%v", name, e.FoundPath)}})
			}
		}
	}
	b, _ := json.Marshal(map[string]any{"Stats": st, "Found": fs})
	fmt.Println(string(b))
}
