#!/bin/bash
# Builds the tools and warms the Go build cache, offline, from files on disk only.
set -e
cd "$(dirname "$0")"
export GOFLAGS=-mod=mod GOPROXY=off GOSUMDB=off GOTOOLCHAIN=local
mkdir -p .build/bin evidence
(cd tools/vrewrite && go build -o ../../.build/bin/vrewrite .)
# warm the cache: build every harness once (no run)
for d in harness/cmd/*/; do
  id=$(basename "$d")
  VERIF_BUILD_ONLY=1 ./check "$id" >/dev/null 2>&1 || echo "warm-up build of $id failed (the check itself will report it)"
done
# sanity of the engine itself (toy programs with known verdicts); a failure is reported, the checks still run
./check selftest > .build/selftest.log 2>&1 || echo "WARNING: scheduler self-test failed, see .build/selftest.log"
echo setup done
